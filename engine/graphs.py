"""Small-scope enumerators for the bounded stand-in (DESIGN 2.4). Everything here is deterministic."""
import itertools
import numpy as np


def und_pairs(n):
    return [(i, j) for i in range(n) for j in range(i + 1, n)]


def dir_pairs(n):
    return [(i, j) for i in range(n) for j in range(n) if i != j]


def all_und(n, dtype=float):
    """All labelled simple undirected graphs on n nodes as symmetric 0/1 matrices (2^(n(n-1)/2))."""
    pr = und_pairs(n)
    for bits in range(1 << len(pr)):
        A = np.zeros((n, n), dtype=dtype)
        for k, (i, j) in enumerate(pr):
            if bits >> k & 1:
                A[i, j] = A[j, i] = 1
        yield A


def all_dir(n, dtype=float):
    """All labelled simple directed graphs on n nodes (2^(n(n-1)))."""
    pr = dir_pairs(n)
    for bits in range(1 << len(pr)):
        A = np.zeros((n, n), dtype=dtype)
        for k, (i, j) in enumerate(pr):
            if bits >> k & 1:
                A[i, j] = 1
        yield A


def n_und(n):
    return 1 << (n * (n - 1) // 2)


def n_dir(n):
    return 1 << (n * (n - 1))


def und_from_bits(n, bits, dtype=float):
    A = np.zeros((n, n), dtype=dtype)
    for k, (i, j) in enumerate(und_pairs(n)):
        if bits >> k & 1:
            A[i, j] = A[j, i] = 1
    return A


def dir_from_bits(n, bits, dtype=float):
    A = np.zeros((n, n), dtype=dtype)
    for k, (i, j) in enumerate(dir_pairs(n)):
        if bits >> k & 1:
            A[i, j] = 1
    return A


def weight_by_position(A, palette=(1.0, 2.0, 3.0), symmetric=True):
    """Deterministic position-dependent weights from a small palette (forces ties, distinguishes cells)."""
    n = len(A)
    W = np.zeros_like(A, dtype=float)
    for i in range(n):
        for j in range(n):
            if A[i, j]:
                a, b = (min(i, j), max(i, j)) if symmetric else (i, j)
                W[i, j] = palette[(a * 2 + b * 3 + (0 if symmetric else (i > j))) % len(palette)]
    return W


def all_weighted_und(n, values=(0, 1, 2)):
    """All symmetric matrices with empty diagonal and entries from `values` (len(values)^(n(n-1)/2))."""
    pr = und_pairs(n)
    for vs in itertools.product(values, repeat=len(pr)):
        W = np.zeros((n, n))
        for (i, j), v in zip(pr, vs):
            W[i, j] = W[j, i] = v
        yield W


def all_weighted_dir(n, values=(0, 1, 2)):
    pr = dir_pairs(n)
    for vs in itertools.product(values, repeat=len(pr)):
        W = np.zeros((n, n))
        for (i, j), v in zip(pr, vs):
            W[i, j] = v
        yield W


def random_und(rng, n, p=0.5, weights=None, signed=False):
    A = np.triu((rng.random_sample((n, n)) < p).astype(float), 1)
    if weights is not None:
        A = A * rng.choice(weights, size=(n, n))
    if signed:
        A = A * rng.choice([-1.0, 1.0], size=(n, n))
    return A + A.T


def random_dir(rng, n, p=0.5, weights=None, signed=False):
    A = (rng.random_sample((n, n)) < p).astype(float)
    np.fill_diagonal(A, 0)
    if weights is not None:
        A = A * rng.choice(weights, size=(n, n))
    if signed:
        A = A * rng.choice([-1.0, 1.0], size=(n, n))
    return A


def set_partitions(n):
    """All partitions of range(n) as label vectors in restricted-growth form (labels 0..k-1)."""
    def rec(i, cur, mx):
        if i == n:
            yield list(cur)
            return
        for lab in range(mx + 2):
            cur.append(lab)
            yield from rec(i + 1, cur, max(mx, lab))
            cur.pop()
    yield from rec(0, [], -1)


def is_connected_und(A):
    n = len(A)
    if n == 0:
        return True
    seen = {0}
    st = [0]
    while st:
        u = st.pop()
        for v in range(n):
            if (A[u, v] != 0 or A[v, u] != 0) and v not in seen:
                seen.add(v)
                st.append(v)
    return len(seen) == n


def reach(A):
    """Boolean reachability closure (paths of length >= 1), independent of bct."""
    n = len(A)
    R = (np.asarray(A) != 0)
    R = R.copy()
    for k in range(n):
        R = R | (R[:, [k]] & R[[k], :])
    return R


def is_strongly_connected(A):
    n = len(A)
    if n <= 1:
        return True
    R = reach(A)
    return bool(np.all(R | np.eye(n, dtype=bool)))


def named_graphs():
    """Highly symmetric graphs with repeated eigenvalues."""
    out = {}
    for n in range(3, 9):
        C = np.zeros((n, n))
        for i in range(n):
            C[i, (i + 1) % n] = C[(i + 1) % n, i] = 1
        out['C%d' % n] = C
    K33 = np.zeros((6, 6)); K33[:3, 3:] = 1; K33 = K33 + K33.T
    out['K33'] = K33
    out['K4'] = np.ones((4, 4)) - np.eye(4)
    out['K5'] = np.ones((5, 5)) - np.eye(5)
    P = np.zeros((10, 10))
    for i in range(5):
        P[i, (i + 1) % 5] = P[(i + 1) % 5, i] = 1
        P[i, i + 5] = P[i + 5, i] = 1
        P[5 + i, 5 + (i + 2) % 5] = P[5 + (i + 2) % 5, 5 + i] = 1
    out['Petersen'] = P
    T = np.zeros((6, 6)); T[:3, :3] = out['K4'][:3, :3]; T[3:, 3:] = out['K4'][:3, :3]
    out['2xK3'] = T
    S = np.zeros((5, 5)); S[0, 1:] = 1; S = S + S.T
    out['star5'] = S
    Q = np.zeros((8, 8))
    for i in range(8):
        for b in range(3):
            Q[i, i ^ (1 << b)] = 1
    out['cube'] = Q
    return out
