#!/usr/bin/env python3
"""numpy -> Lean extractor for the purely algebraic measures of bctpy (DESIGN 2.3).

Reads the REAL source of the target functions with `ast` from $VERIF_REPO (default /repo) and translates the function body into
a Lean 4 definition over `Fin n → Fin n → ℝ` (matrices as functions), `Fin n → ℝ` (vectors) and `ℝ` (scalars).

  python3 engine/lean/extract.py [--repo DIR] [--out FILE] [--report FILE]

Method: the body is evaluated symbolically, statement by statement, with *value semantics* and lazy, pointwise array values
(a matrix is a Python closure  (i, j) ↦ scalar term).  Locals are therefore let-inlined: the emitted term depends only on the data
flow into the returned value, not on the names of locals or on the order of independent statements.  Bound variables are named
by nesting depth when the term is printed, so the output is canonical.

Anything outside the supported subset raises OutOfSubset.  A statement that cannot be translated does not abort the extraction
at once: the names it binds or may mutate are *poisoned* (with the reason); only if the returned value depends on a poisoned name
is the function refused.  This is how the optimisation part of modularity_und/_dir is left out mechanically (dead code for a
given partition) — every dropped statement is listed in the report.

What the extraction drops (also written into the header of the generated file and into the report):
  * float64 rounding: ℝ instead of floats; numpy's x/0 = ±inf/nan is Lean's x/0 = 0; the only infinity that is modelled is the
    masking idiom `K[np.where(c == 0)] = np.inf` (values "+inf if guard else finite", see class Ext)
  * dtype (`.astype(float)`, `dtype=float`, bool→0/1 coercion is modelled, integer vs float is not)
  * decorators, docstrings, imports, `.copy()` / aliasing of results with inputs (value semantics; in-place stores on an array that
    is visible under another name through a view are refused, mutation of the caller's array by an inlined callee is refused)
  * shape errors / non-square input (all arrays are n×n or n), exceptions, termination
  * `cuberoot` is the abstract function `cbrt : ℝ → ℝ` (its body must be textually `np.sign(x) * np.abs(x) ** (1 / 3)`)
"""
import ast, os, sys, json, hashlib, argparse

REPO = os.environ.get('VERIF_REPO', '/repo')


class OutOfSubset(Exception):
    pass


# ------------------------------------------------------------------------------------------------------------------------
# scalar terms (IR): nested tuples, binders as Python closures (HOAS); printed with depth-indexed bound names
#   real terms : ('num', '2') ('n',) ('app', name, [ix...]) ('add'|'sub'|'mul'|'div', a, b) ('neg', a) ('pow', a, k)
#                ('sum', fn) ('ite', prop, a, b) ('cbrt', a) ('sc', name)
#   props      : ('eq'|'ne'|'lt'|'le'|'gt'|'ge', a, b) ('not', p) ('ixeq', i, j) ('ixle', i, j) ('ex', fn) ('and', p, q) ('or', p, q)
#   indices    : ('ix', name)
PROP_TAGS = {'eq', 'ne', 'lt', 'le', 'gt', 'ge', 'not', 'ixeq', 'ixle', 'ex', 'and', 'or', 'allconst'}


def is_prop(t):
    return isinstance(t, tuple) and t and t[0] in PROP_TAGS


class Ext:
    """extended value: +inf if `guard` else the finite term `fin` (only produced by the masking idiom X[c == 0] = np.inf)"""
    def __init__(self, guard, fin):
        self.guard, self.fin = guard, fin


def pp(t, d=0):
    k = t[0]
    if k == 'num':
        return '(%s : ℝ)' % t[1]
    if k == 'n':
        return '(%s : ℝ)' % (t[1] if len(t) > 1 else 'n')
    if k == 'sqrt':
        return 'sqrt (%s)' % pp(t[1], d)
    if k == 'allconst':             # np.ptp(v) == 0 : all entries equal
        a, b = 'a%d' % d, 'b%d' % d
        return '(∀ %s %s : Fin %s, %s = %s)' % (a, b, t[2], pp(t[1](('ix', a)), d + 1), pp(t[1](('ix', b)), d + 1))
    if k == 'sc':
        return t[1]
    if k == 'ix':
        return t[1]
    if k == 'app':
        return '%s %s' % (t[1], ' '.join(pp(a, d) for a in t[2]))
    if k in ('add', 'sub', 'mul', 'div'):
        return '(%s %s %s)' % (pp(t[1], d), {'add': '+', 'sub': '-', 'mul': '*', 'div': '/'}[k], pp(t[2], d))
    if k == 'neg':
        return '(-%s)' % pp(t[1], d)
    if k == 'pow':
        return '(%s ^ %d)' % (pp(t[1], d), t[2])
    if k == 'cbrt':
        return 'cbrt (%s)' % pp(t[1], d)
    if k == 'sum':
        v = 'k%d' % d
        return '(∑ %s : Fin %s, %s)' % (v, t[2] if len(t) > 2 else 'n', pp(t[1](('ix', v)), d + 1))
    if k == 'abs':
        return '|%s|' % pp(t[1], d)
    if k == 'aidx':                 # index-valued abstract call, e.g. argmax
        return '(%s %s)' % (t[1], ' '.join(t[2]))
    if k == 'acall':                # abstract (uninterpreted) library call applied to named argument definitions, then indexed
        return '%s %s %s' % (t[1], ' '.join(t[2]), ' '.join(pp(a, d) for a in t[3]))
    if k == 'canon':
        v = 'k%d' % d
        return 'canon (fun %s : Fin n => %s) %s' % (v, pp(t[1](('ix', v)), d + 1), pp(t[2], d))
    if k == 'ite':
        return '(if %s then %s else %s)' % (pp(t[1], d), pp(t[2], d), pp(t[3], d))
    if k in ('eq', 'ne', 'lt', 'le', 'gt', 'ge'):
        return '%s %s %s' % (pp(t[1], d), {'eq': '=', 'ne': '≠', 'lt': '<', 'le': '≤', 'gt': '>', 'ge': '≥'}[k], pp(t[2], d))
    if k == 'not':
        return '¬(%s)' % pp(t[1], d)
    if k == 'and':
        return '((%s) ∧ (%s))' % (pp(t[1], d), pp(t[2], d))
    if k == 'or':
        return '((%s) ∨ (%s))' % (pp(t[1], d), pp(t[2], d))
    if k == 'ixeq':
        return '%s = %s' % (pp(t[1], d), pp(t[2], d))
    if k == 'ixle':
        return '%s ≤ %s' % (pp(t[1], d), pp(t[2], d))
    if k == 'ex':
        v = 'k%d' % d
        return '(∃ %s : Fin n, %s)' % (v, pp(t[1](('ix', v)), d + 1))
    raise AssertionError(t)


def same(a, b):
    return a is b or pp(a, 60) == pp(b, 60)


def uses(t, tag):
    """does the printed term mention cbrt / a given name (used to decide the Lean parameter list)"""
    return tag in pp(t, 0)


ZERO, ONE = ('num', '0'), ('num', '1')


def real(x):
    """coerce a scalar value to a real-valued one (bool → 0/1); Ext stays Ext"""
    if isinstance(x, Ext):
        return x
    if is_prop(x):
        return ('ite', x, ONE, ZERO)
    return x


def pos_literal(t):
    return isinstance(t, tuple) and t[0] == 'num' and float(t[1]) > 0


def arith(op, a, b):
    a, b = real(a), real(b)
    ea, eb = isinstance(a, Ext), isinstance(b, Ext)
    if not ea and not eb:
        return (op, a, b)
    # arithmetic with +inf: only the cases whose result is determined for every finite partner
    if op == 'add':
        if ea and eb:
            if same(a.guard, b.guard):
                return Ext(a.guard, ('add', a.fin, b.fin))
        elif ea:
            return Ext(a.guard, ('add', a.fin, b))
        else:
            return Ext(b.guard, ('add', a, b.fin))
    if op == 'sub' and ea and not eb:
        return Ext(a.guard, ('sub', a.fin, b))
    if op == 'mul':
        if ea and eb and same(a.guard, b.guard):
            return Ext(a.guard, ('mul', a.fin, b.fin))          # (+inf) * (+inf) = +inf
        if ea and not eb and pos_literal(b):
            return Ext(a.guard, ('mul', a.fin, b))
        if eb and not ea and pos_literal(a):
            return Ext(b.guard, ('mul', a, b.fin))
    if op == 'div':
        if eb and not ea:
            return ('ite', b.guard, ZERO, ('div', a, b.fin))     # finite / (+inf) = 0
        if ea and not eb and pos_literal(b):
            return Ext(a.guard, ('div', a.fin, b))
    raise OutOfSubset('arithmetic %s on a value that may be +inf (masking idiom) is not determined' % op)


def fin(x, what):
    x = real(x)
    if isinstance(x, Ext):
        raise OutOfSubset('%s of a value that may be +inf (masking idiom np.inf)' % what)
    return x


def cmp_(op, a, b):
    return (op, fin(a, 'comparison'), fin(b, 'comparison'))


# ------------------------------------------------------------------------------------------------------------------------
# symbolic python values
_oid = [0]


def fresh_oid():
    _oid[0] += 1
    return _oid[0]


class Val:
    """array / scalar value: shape 'S' f() | 'V' f(i) | 'M' f(i, j); the closures return a scalar term, a prop or an Ext"""
    def __init__(self, shape, f, oid=None, nat=False, dim='n'):
        # dim: name of the index set Fin <dim> of a vector (matrices are square over Fin n); for a nat scalar: which length it is
        self.shape, self.f, self.oid, self.nat, self.dim = shape, f, oid or fresh_oid(), nat, dim


class Flat:                       # X.flatten() of a matrix (only consumed by np.where / np.size)
    def __init__(self, m):
        self.m = m


class WhereFlat:                  # np.where(X.flatten())
    def __init__(self, m):
        self.m = m


class WhereVec:                   # np.where(boolean vector)  (only consumed by np.size: number of True entries)
    def __init__(self, v):
        self.v = v


class Const:                      # python constant known at extraction time (None, bool, str, number, np.inf)
    def __init__(self, v):
        self.v = v


class PyTuple:
    def __init__(self, items):
        self.items = items


class Closure:                    # nested def: defining it has no effect; using it is out of the subset
    def __init__(self, node):
        self.node = node


class Poison:
    def __init__(self, why):
        self.why = why


INF = float('inf')


def S(t, nat=False):
    return Val('S', lambda: t, nat=nat)


def const_term(c):
    v = c.v
    if isinstance(v, bool):
        return ONE if v else ZERO
    if isinstance(v, int):
        return ('num', str(v)) if v >= 0 else ('neg', ('num', str(-v)))
    if isinstance(v, float):
        if v == INF:
            raise OutOfSubset('np.inf used as an ordinary number')
        if v != v:
            raise OutOfSubset('nan')
        return ('num', repr(v)) if v >= 0 else ('neg', ('num', repr(-v)))
    raise OutOfSubset('constant %r used as a number' % (v,))


def as_val(x):
    if isinstance(x, Val):
        if x.shape == 'I':
            raise OutOfSubset('index value (np.argmax) used as a number')
        return x
    if isinstance(x, Const):
        return S(const_term(x))
    raise OutOfSubset('value of kind %s used as an array/number' % type(x).__name__)


def ewise2(op, a, b):
    """numpy broadcasting for the shapes that occur: S with anything, equal shapes, M with V (the vector runs along axis 1)"""
    a, b = as_val(a), as_val(b)
    g = (lambda x, y: arith(op, x, y)) if op in ('add', 'sub', 'mul', 'div') else (lambda x, y: cmp_(op, x, y))
    sa, sb = a.shape, b.shape
    if sa == 'S' and sb == 'S':
        return Val('S', lambda: g(a.f(), b.f()))
    if sa == 'S':
        return Val(sb, (lambda i: g(a.f(), b.f(i))) if sb == 'V' else (lambda i, j: g(a.f(), b.f(i, j))), dim=b.dim)
    if sb == 'S':
        return Val(sa, (lambda i: g(a.f(i), b.f())) if sa == 'V' else (lambda i, j: g(a.f(i, j), b.f())), dim=a.dim)
    if a.dim != b.dim:
        raise OutOfSubset('operands of different lengths (%s, %s)' % (a.dim, b.dim))
    if sa == sb == 'V':
        return Val('V', lambda i: g(a.f(i), b.f(i)), dim=a.dim)
    if sa == sb == 'M':
        return Val('M', lambda i, j: g(a.f(i, j), b.f(i, j)))
    if sa == 'M' and sb == 'V':
        return Val('M', lambda i, j: g(a.f(i, j), b.f(j)))
    if sa == 'V' and sb == 'M':
        return Val('M', lambda i, j: g(a.f(j), b.f(i, j)))
    raise OutOfSubset('broadcast %s with %s' % (sa, sb))


def ewise1(fn, a):
    a = as_val(a)
    if a.shape == 'S':
        return Val('S', lambda: fn(a.f()))
    if a.shape == 'V':
        return Val('V', lambda i: fn(a.f(i)), dim=a.dim)
    return Val('M', lambda i, j: fn(a.f(i, j)))


def total(f1, dim='n'):
    """∑ k, f1 k where entries may be Ext (then: +inf if some guard holds, else the finite sum)"""
    probe = f1(('ix', '_probe'))
    if isinstance(real(probe), Ext):
        if dim != 'n':
            raise OutOfSubset('sum of possibly infinite values over Fin %s' % dim)
        return Ext(('ex', lambda k: real(f1(k)).guard), ('sum', lambda k: real(f1(k)).fin))
    return ('sum', lambda k: fin(f1(k), 'sum')) if dim == 'n' else ('sum', lambda k: fin(f1(k), 'sum'), dim)


def np_sum(x, axis):
    x = as_val(x)
    if x.shape == 'S':
        raise OutOfSubset('np.sum of a scalar')
    if x.shape == 'V':
        if axis not in (None, 0):
            raise OutOfSubset('np.sum(vector, axis=%r)' % (axis,))
        return Val('S', lambda: total(lambda k: x.f(k), x.dim))
    if axis is None:
        return Val('S', lambda: ('sum', lambda a: ('sum', lambda b: fin(x.f(a, b), 'np.sum'))))
    if axis == 0:
        return Val('V', lambda j: total(lambda k: x.f(k, j)))
    if axis == 1:
        return Val('V', lambda i: total(lambda k: x.f(i, k)))
    raise OutOfSubset('np.sum axis=%r' % (axis,))


def matmul(a, b):
    a, b = as_val(a), as_val(b)
    F = lambda t: fin(t, 'np.dot')
    if a.shape == 'M' and b.shape == 'M':
        return Val('M', lambda i, j: ('sum', lambda k: ('mul', F(a.f(i, k)), F(b.f(k, j)))))
    if a.shape == 'M' and b.shape == 'V':
        return Val('V', lambda i: ('sum', lambda k: ('mul', F(a.f(i, k)), F(b.f(k)))))
    if a.shape == 'V' and b.shape == 'M':
        return Val('V', lambda j: ('sum', lambda k: ('mul', F(a.f(k)), F(b.f(k, j)))))
    if a.shape == 'V' and b.shape == 'V':
        return Val('S', lambda: ('sum', lambda k: ('mul', F(a.f(k)), F(b.f(k)))))
    raise OutOfSubset('np.dot of shapes %s, %s' % (a.shape, b.shape))


def transpose(a):
    a = as_val(a)
    if a.shape == 'M':
        return Val('M', lambda i, j: a.f(j, i), oid=a.oid)      # a view: shares the object identity
    return a


def logical_not(t):
    return ('not', t) if is_prop(t) else ('eq', fin(t, 'logical_not'), ZERO)


def to_float(t):
    return real(t)


def truth(t):
    """python/numpy truth value of an element (used for masks given as numeric arrays and for np.where)"""
    return t if is_prop(t) else ('ne', fin(t, 'truth value'), ZERO)


# ------------------------------------------------------------------------------------------------------------------------
PURE_CALLS = {'np.sum', 'np.max', 'np.min', 'np.dot', 'np.abs', 'np.where', 'np.any', 'np.all', 'np.real', 'np.argmax', 'np.size',
              'np.diag', 'np.trace', 'np.outer', 'np.array', 'np.zeros', 'np.ones', 'np.unique', 'len', 'int', 'float', 'range',
              'np.logical_not', 'np.logical_and', 'np.logical_or', 'np.mean', 'np.sqrt', 'np.arange', 'np.tile', 'np.triu', 'np.tril'}


def dotted(node):
    if isinstance(node, ast.Name):
        return node.id
    if isinstance(node, ast.Attribute):
        b = dotted(node.value)
        return None if b is None else b + '.' + node.attr
    return None


def may_touch(stmts):
    """names a block of untranslated statements may bind or mutate (conservative)"""
    out = set()
    for st in stmts:
        for nd in ast.walk(st):
            if isinstance(nd, ast.Name) and isinstance(nd.ctx, (ast.Store, ast.Del)):
                out.add(nd.id)
            elif isinstance(nd, (ast.Subscript, ast.Attribute)) and isinstance(nd.ctx, (ast.Store, ast.Del)):
                b = nd
                while isinstance(b, (ast.Subscript, ast.Attribute)):
                    b = b.value
                if isinstance(b, ast.Name):
                    out.add(b.id)
            elif isinstance(nd, ast.AugAssign):
                b = nd.target
                while isinstance(b, (ast.Subscript, ast.Attribute)):
                    b = b.value
                if isinstance(b, ast.Name):
                    out.add(b.id)
            elif isinstance(nd, ast.Call):
                fn = dotted(nd.func)
                if fn not in PURE_CALLS:
                    for a in list(nd.args) + [k.value for k in nd.keywords]:
                        if isinstance(a, ast.Name):
                            out.add(a.id)
                    if isinstance(nd.func, ast.Attribute) and isinstance(nd.func.value, ast.Name) and nd.func.value.id not in ('np', 'numpy', 'linalg'):
                        out.add(nd.func.value.id)
            elif isinstance(nd, (ast.Assign, ast.AnnAssign, ast.NamedExpr)):
                # possible aliasing: x = Y, x = Y.T, x = Y[...] make a later store through x reach Y
                v = nd.value
                while isinstance(v, (ast.Subscript, ast.Attribute)):
                    v = v.value
                if isinstance(v, ast.Name):
                    out.add(v.id)
            elif isinstance(nd, (ast.FunctionDef, ast.Lambda, ast.ClassDef)) and nd is not st:
                pass
    return out


class Extractor:
    def __init__(self, repo):
        self.repo = repo
        self.modules = {}
        self.depth = 0
        self.ctx = None            # per target: {'name', 'params': [(decl, name)], 'aux': [(lean name, text, shape)], 'ncall': int}

    def arg_def(self, call_no, arg_no, v, what):
        """emit `<target>_call<k>_arg<j>` := the argument of an abstract call; returns the Lean application string"""
        v = as_val(v)
        ctx = self.ctx
        lname = '%s_call%d_arg%d' % (ctx['name'], call_no, arg_no)
        if v.shape == 'S':
            raise OutOfSubset('scalar argument of the abstract call %s' % what)
        if v.shape == 'V':
            text, binder = pp(fin(v.f(('ix', 'i')), 'argument of ' + what)), 'fun i => '
        else:
            text, binder = pp(fin(v.f(('ix', 'i'), ('ix', 'j')), 'argument of ' + what)), 'fun i j => '
        abs_ps = abstract_used(text)
        decl = ' '.join(['(%s : %s)' % p for p in abs_ps] + [d for d, _ in ctx['params']])
        lean = 'noncomputable def %s {n : ℕ} %s : %s :=\n  %s%s\n' % (lname, decl, LEAN_TYPES[v.shape], binder, text)
        ctx['aux'].append((lname, lean, v.shape))
        return '(%s)' % ' '.join([lname] + [nm for nm, _ in abs_ps] + [nm for _, nm in ctx['params']])

    def abstract_call(self, fn, e, env):
        if e.keywords:
            raise OutOfSubset('keyword arguments in the abstract call %s' % ast.unparse(e)[:60])
        ctx = self.ctx
        if fn in ABSTRACT_EIG:
            if len(e.args) != 1:
                raise OutOfSubset('arguments of %s' % fn)
            a = as_val(self.ev(e.args[0], env))
            if a.shape != 'M':
                raise OutOfSubset('%s of a non-matrix' % fn)
            k = ctx['ncall']; ctx['ncall'] += 1
            s0 = self.arg_def(k, 0, a, fn)
            ctx['abstract_calls'].append('%s(%s) -> eigvals / eigvecs (real parts only; complex results are dropped)' % (fn, ast.unparse(e.args[0])[:40]))
            return PyTuple([Val('V', lambda i: ('acall', 'eigvals', [s0], [i])), Val('M', lambda i, j: ('acall', 'eigvecs', [s0], [i, j]))])
        lf, shapes, res = ABSTRACT[fn]
        if len(e.args) != len(shapes):
            raise OutOfSubset('arguments of %s' % fn)
        vals = [as_val(self.ev(a, env)) for a in e.args]
        for v, sh in zip(vals, shapes):
            if v.shape != sh:
                raise OutOfSubset('%s: argument of shape %s where %s is expected' % (fn, v.shape, sh))
        k = ctx['ncall']; ctx['ncall'] += 1
        strs = [self.arg_def(k, j, v, fn) for j, v in enumerate(vals)]
        ctx['abstract_calls'].append('%s(%s) -> abstract `%s`' % (fn, ', '.join(ast.unparse(a)[:30] for a in e.args), lf))
        if res == 'V':
            return Val('V', lambda i: ('acall', lf, strs, [i]))
        if res == 'M':
            return Val('M', lambda i, j: ('acall', lf, strs, [i, j]))
        return Val('I', lambda: ('aidx', lf, strs))

    # -- source access ---------------------------------------------------------------------------------------------
    def module(self, rel):
        if rel not in self.modules:
            path = os.path.join(self.repo, rel)
            src = open(path).read()
            self.modules[rel] = (src, ast.parse(src))
        return self.modules[rel]

    def fundef(self, rel, name):
        src, tree = self.module(rel)
        for nd in tree.body:
            if isinstance(nd, ast.FunctionDef) and nd.name == name:
                return src, nd
        if '.' in name:                                   # 'outer.inner': a def nested in a top-level function
            outer, inner = name.split('.', 1)
            for nd in tree.body:
                if isinstance(nd, ast.FunctionDef) and nd.name == outer:
                    hits = [x for x in ast.walk(nd) if isinstance(x, ast.FunctionDef) and x.name == inner]
                    if len(hits) == 1:
                        return src, hits[0]
        raise OutOfSubset('function %s not found in %s' % (name, rel))

    # -- expressions -----------------------------------------------------------------------------------------------
    def ev(self, e, env):
        m = getattr(self, 'ev_' + type(e).__name__, None)
        if m is None:
            raise OutOfSubset('expression %s: %s' % (type(e).__name__, ast.unparse(e)))
        return m(e, env)

    def ev_Name(self, e, env):
        if e.id not in env:
            raise OutOfSubset('name %s is not bound (global / builtin outside the subset)' % e.id)
        v = env[e.id]
        if isinstance(v, Poison):
            raise OutOfSubset('%s depends on: %s' % (e.id, v.why))
        if isinstance(v, Closure):
            raise OutOfSubset('use of the nested function %s' % e.id)
        return v

    def ev_Constant(self, e, env):
        if isinstance(e.value, (bool, int, float, str)) or e.value is None:
            return Const(e.value)
        raise OutOfSubset('constant %r' % (e.value,))

    def ev_Tuple(self, e, env):
        return PyTuple([self.ev(x, env) for x in e.elts])

    def ev_Attribute(self, e, env):
        d = dotted(e)
        if d in ('np.inf', 'numpy.inf', 'np.Inf'):
            return Const(INF)
        if e.attr == 'T':
            return transpose(self.ev(e.value, env))
        raise OutOfSubset('attribute %s' % ast.unparse(e))

    def ev_UnaryOp(self, e, env):
        v = self.ev(e.operand, env)
        if isinstance(e.op, ast.USub):
            if isinstance(v, Const) and isinstance(v.v, (int, float)) and not isinstance(v.v, bool):
                return Const(-v.v)
            return ewise1(lambda t: ('neg', fin(t, 'negation')), v)
        if isinstance(e.op, ast.UAdd):
            return v
        if isinstance(e.op, ast.Not):
            if isinstance(v, Const):
                return Const(not v.v)
            if isinstance(v, Val) and v.shape == 'S':
                return Val('S', lambda: logical_not(v.f()))
            raise OutOfSubset('`not` of an array')
        raise OutOfSubset('unary operator %s' % ast.unparse(e))

    def ev_BinOp(self, e, env):
        a, b = self.ev(e.left, env), self.ev(e.right, env)
        op = type(e.op).__name__
        if op == 'MatMult':
            return matmul(a, b)
        table = {'Add': 'add', 'Sub': 'sub', 'Mult': 'mul', 'Div': 'div'}
        if op in table:
            if isinstance(a, Const) and isinstance(b, Const) and all(isinstance(x.v, (int, float)) and not isinstance(x.v, bool) and abs(x.v) != INF for x in (a, b)):
                if op == 'Div':
                    return S(('div', const_term(a), const_term(b)))      # keep 1 / 3 as a quotient of literals
                return Const({'Add': a.v + b.v, 'Sub': a.v - b.v, 'Mult': a.v * b.v}[op])
            return ewise2(table[op], a, b)
        if op == 'Pow' and isinstance(b, Const) and isinstance(b.v, int) and not isinstance(b.v, bool) and 0 <= b.v <= 4:
            k = b.v
            return ewise1(lambda t: ('pow', fin(t, 'power'), k), a)
        raise OutOfSubset('binary operator in %s' % ast.unparse(e))

    def ev_BoolOp(self, e, env):
        vals = [self.ev(v, env) for v in e.values]
        if all(isinstance(v, Const) for v in vals):
            r = vals[0].v
            for v in vals[1:]:
                r = (r and v.v) if isinstance(e.op, ast.And) else (r or v.v)
            return Const(r)
        ps = []
        for v in vals:
            v = as_val(v)
            if v.shape != 'S':
                raise OutOfSubset('and/or of arrays')
            ps.append(v)
        tag = 'and' if isinstance(e.op, ast.And) else 'or'

        def build():
            ts = [truth(p.f()) for p in ps]
            r = ts[-1]
            for t in reversed(ts[:-1]):
                r = (tag, t, r)
            return r
        return Val('S', build)

    def ev_Compare(self, e, env):
        if len(e.ops) != 1:
            raise OutOfSubset('chained comparison %s' % ast.unparse(e))
        c0 = e.comparators[0]
        if isinstance(e.ops[0], ast.Eq) and isinstance(e.left, ast.Call) and dotted(e.left.func) == 'np.ptp' and len(e.left.args) == 1 \
                and not e.left.keywords and isinstance(c0, ast.Constant) and c0.value == 0 and not isinstance(c0.value, bool):
            v = as_val(self.ev(e.left.args[0], env))          # idiom np.ptp(v) == 0  (max − min = 0): all entries are equal
            if v.shape != 'V':
                raise OutOfSubset('np.ptp of a non-vector')
            return Val('S', lambda: ('allconst', lambda k: fin(v.f(k), 'np.ptp'), v.dim))
        a, b = self.ev(e.left, env), self.ev(e.comparators[0], env)
        op = type(e.ops[0]).__name__
        if op in ('Is', 'IsNot'):
            if isinstance(b, Const) and b.v is None:
                r = isinstance(a, Const) and a.v is None
                return Const(r if op == 'Is' else not r)
            raise OutOfSubset('identity test %s' % ast.unparse(e))
        if isinstance(a, Const) and isinstance(b, Const) and op in ('Eq', 'NotEq'):
            return Const((a.v == b.v) if op == 'Eq' else (a.v != b.v))
        table = {'Eq': 'eq', 'NotEq': 'ne', 'Lt': 'lt', 'LtE': 'le', 'Gt': 'gt', 'GtE': 'ge'}
        if op in table:
            if isinstance(a, Const) and isinstance(a.v, str) or isinstance(b, Const) and isinstance(b.v, str):
                raise OutOfSubset('comparison with a string: %s' % ast.unparse(e))
            return ewise2(table[op], a, b)
        raise OutOfSubset('comparison %s' % ast.unparse(e))

    def ev_Subscript(self, e, env):
        x = self.ev(e.value, env)
        sl = e.slice
        full = lambda s: isinstance(s, ast.Slice) and s.lower is None and s.upper is None and s.step is None
        if isinstance(x, Val) and x.shape == 'V' and not isinstance(sl, (ast.Slice, ast.Tuple)):
            ix = self.ev(sl, env)
            if isinstance(ix, Val) and ix.shape == 'I' and ix.dim == x.dim:
                return Val('S', lambda: x.f(ix.f()))
        if isinstance(x, Val) and x.shape == 'M' and isinstance(sl, ast.Tuple) and len(sl.elts) == 2:
            a, b = sl.elts
            if full(a) and not isinstance(b, ast.Slice):
                ix = self.ev(b, env)
                if isinstance(ix, Val) and ix.shape == 'I':
                    return Val('V', lambda k: x.f(k, ix.f()))
            if full(b) and not isinstance(a, ast.Slice):
                ix = self.ev(a, env)
                if isinstance(ix, Val) and ix.shape == 'I':
                    return Val('V', lambda k: x.f(ix.f(), k))
        raise OutOfSubset('expression Subscript: %s' % ast.unparse(e))

    def kw(self, call, env, allowed):
        out = {}
        for k in call.keywords:
            if k.arg not in allowed:
                raise OutOfSubset('keyword %s in %s' % (k.arg, ast.unparse(call)))
            out[k.arg] = k.value
        return out

    def axis_of(self, call, env, pos=1):
        node = None
        if len(call.args) > pos:
            node = call.args[pos]
        for k in call.keywords:
            if k.arg == 'axis':
                node = k.value
            else:
                raise OutOfSubset('keyword %s in %s' % (k.arg, ast.unparse(call)))
        if node is None:
            return None
        v = self.ev(node, env)
        if isinstance(v, Const) and (v.v is None or (isinstance(v.v, int) and not isinstance(v.v, bool))):
            return v.v
        raise OutOfSubset('axis argument %s' % ast.unparse(node))

    def ev_Call(self, e, env):
        fn = dotted(e.func)
        args = e.args
        if any(isinstance(a, ast.Starred) for a in args) or any(k.arg is None for k in e.keywords):
            raise OutOfSubset('star arguments')
        if fn in ('np.dot', 'np.matmul') and len(args) == 2 and not e.keywords:
            return matmul(self.ev(args[0], env), self.ev(args[1], env))
        if fn == 'np.sum' and 1 <= len(args) <= 2:
            return np_sum(self.ev(args[0], env), self.axis_of(e, env))
        if fn == 'np.diag' and len(args) == 1 and not e.keywords:
            x = as_val(self.ev(args[0], env))
            if x.shape == 'V':
                return Val('M', lambda i, j: ('ite', ('ixeq', i, j), fin(x.f(i), 'np.diag'), ZERO))
            if x.shape != 'M':
                raise OutOfSubset('np.diag of a scalar')
            return Val('V', lambda i: x.f(i, i))
        if fn == 'np.trace' and len(args) == 1 and not e.keywords:
            x = as_val(self.ev(args[0], env))
            if x.shape != 'M':
                raise OutOfSubset('np.trace of a non-matrix')
            return Val('S', lambda: ('sum', lambda k: fin(x.f(k, k), 'np.trace')))
        if fn == 'np.outer' and len(args) == 2 and not e.keywords:
            u, v = as_val(self.ev(args[0], env)), as_val(self.ev(args[1], env))
            if u.shape != 'V' or v.shape != 'V':
                raise OutOfSubset('np.outer of non-vectors')
            return Val('M', lambda i, j: arith('mul', u.f(i), v.f(j)))
        if fn in ABSTRACT or fn in ABSTRACT_EIG:
            return self.abstract_call(fn, e, env)
        if fn in ('np.ones', 'np.zeros') and len(args) == 1 and not e.keywords:
            sh = self.ev(args[0], env)
            dims = sh.items if isinstance(sh, PyTuple) else [sh]
            if all(isinstance(x, Val) and x.nat for x in dims) and 1 <= len(dims) <= 2:
                c = ONE if fn == 'np.ones' else ZERO
                return Val('V', lambda i: c) if len(dims) == 1 else Val('M', lambda i, j: c)
            raise OutOfSubset('%s with a shape other than (n,) / (n, n)' % fn)
        if fn == 'np.eye' and len(args) == 1 and not e.keywords:
            x = self.ev(args[0], env)
            if isinstance(x, Val) and x.nat:
                return Val('M', lambda i, j: ('ite', ('ixeq', i, j), ONE, ZERO))
            raise OutOfSubset('np.eye of something other than n')
        if fn == 'np.sqrt' and len(args) == 1 and not e.keywords:
            return ewise1(lambda t: ('sqrt', fin(t, 'np.sqrt')), self.ev(args[0], env))       # abstract sqrt : ℝ → ℝ
        if fn in ('np.mean', 'np.var') and len(args) == 1:
            x = as_val(self.ev(args[0], env))
            if x.shape != 'V':
                raise OutOfSubset('%s of a non-vector' % fn)
            ln = ('n',) if x.dim == 'n' else ('n', x.dim)
            dim = x.dim
            sm = lambda f1: ('sum', f1) if dim == 'n' else ('sum', f1, dim)
            mean = lambda: ('div', sm(lambda k: fin(x.f(k), fn)), ln)
            if fn == 'np.mean':
                if e.keywords:
                    raise OutOfSubset('keywords of np.mean')
                return Val('S', mean)
            kws = self.kw(e, env, {'ddof'})
            ddof = self.ev(kws['ddof'], env) if 'ddof' in kws else Const(0)
            if not (isinstance(ddof, Const) and isinstance(ddof.v, int) and not isinstance(ddof.v, bool) and ddof.v >= 0):
                raise OutOfSubset('ddof of np.var')
            den = ln if ddof.v == 0 else ('sub', ln, ('num', str(ddof.v)))
            return Val('S', lambda: ('div', sm(lambda k: ('pow', ('sub', fin(x.f(k), fn), mean()), 2)), den))
        if fn == 'np.abs' and len(args) == 1 and not e.keywords:
            return ewise1(lambda t: ('abs', fin(t, 'np.abs')), self.ev(args[0], env))
        if fn == 'np.real' and len(args) == 1 and not e.keywords:
            return self.ev(args[0], env)                  # all values are real in the model (complex parts are dropped)
        if fn == 'np.logical_not' and len(args) == 1 and not e.keywords:
            return ewise1(logical_not, self.ev(args[0], env))
        if fn == 'np.transpose' and len(args) == 1 and not e.keywords:
            return transpose(self.ev(args[0], env))
        if fn == 'np.triu' and len(args) == 1 and not e.keywords:
            x = as_val(self.ev(args[0], env))
            if x.shape != 'M':
                raise OutOfSubset('np.triu of a non-matrix')
            return Val('M', lambda i, j: ('ite', ('ixle', i, j), fin(x.f(i, j), 'np.triu'), ZERO))
        if fn == 'np.tile' and len(args) == 2 and not e.keywords:
            v, reps = self.ev(args[0], env), self.ev(args[1], env)
            if isinstance(v, Val) and v.shape == 'V' and isinstance(reps, PyTuple) and len(reps.items) == 2:
                r0, r1 = reps.items
                if isinstance(r0, Val) and r0.nat and isinstance(r1, Const) and r1.v == 1 and not isinstance(r1.v, bool):
                    return Val('M', lambda i, j: v.f(j))
            raise OutOfSubset('np.tile other than np.tile(vector, (n, 1))')
        if fn in ('np.array', 'np.asarray') and len(args) == 1:
            kws = self.kw(e, env, {'dtype', 'copy'})
            x = as_val(self.ev(args[0], env))
            if 'dtype' in kws and dotted(kws['dtype']) not in ('float', 'np.float64', 'np.float_'):
                raise OutOfSubset('dtype %s' % ast.unparse(kws['dtype']))
            if fn == 'np.asarray' and 'dtype' not in kws:
                return x                                  # np.asarray of an array is the array itself (alias)
            return self.copy_of(x, 'dtype' in kws)
        if fn == 'np.where' and len(args) == 1 and not e.keywords:
            x = self.ev(args[0], env)
            if isinstance(x, Flat):
                return WhereFlat(x.m)
            if isinstance(x, Val) and x.shape == 'V' and is_prop(x.f(('ix', '_p'))):
                return WhereVec(x)
            raise OutOfSubset('np.where outside the idioms X[np.where(mask)] = v / np.size(np.where(X.flatten()))')
        if fn == 'np.size' and len(args) == 1 and not e.keywords:
            x = self.ev(args[0], env)
            if isinstance(x, WhereVec):
                v = x.v
                return Val('S', lambda: ('sum', lambda a: ('ite', v.f(a), ONE, ZERO), v.dim) if v.dim != 'n' else ('sum', lambda a: ('ite', v.f(a), ONE, ZERO)))
            if isinstance(x, WhereFlat):
                m = x.m
                return Val('S', lambda: ('sum', lambda a: ('sum', lambda b: ('ite', truth(m.f(a, b)), ONE, ZERO))))
            raise OutOfSubset('np.size outside the idiom np.size(np.where(X.flatten()))')
        if fn == 'np.unique' and len(args) == 1 and len(e.keywords) == 1 and e.keywords[0].arg == 'return_inverse' \
                and isinstance(e.keywords[0].value, ast.Constant) and e.keywords[0].value.value is True:
            x = self.ev(args[0], env)
            if isinstance(x, Val) and x.shape == 'V':
                # the inverse index is an abstract canonical relabelling `canon x` (spec used by the proofs: canon x a = canon x b ↔ x a = x b)
                return PyTuple([Poison('first component of np.unique (sorted distinct values) is not modelled'),
                                Val('V', lambda i: ('canon', lambda k: fin(x.f(k), 'np.unique'), i))])
            raise OutOfSubset('np.unique of a non-vector')
        if fn == 'len' and len(args) == 1 and not e.keywords:
            x = self.ev(args[0], env)
            if isinstance(x, Val) and x.shape in ('M', 'V'):
                return Val('S', (lambda: ('n',)) if x.dim == 'n' else (lambda d=x.dim: ('n', d)), nat=True, dim=x.dim)
            raise OutOfSubset('len of a non-array')
        if fn in ('float', 'int') and len(args) == 1 and not e.keywords:
            x = self.ev(args[0], env)
            if isinstance(x, Val) and x.nat:
                return x
            raise OutOfSubset('%s() of a non-integer value' % fn)
        if isinstance(e.func, ast.Attribute) and not (fn or '').startswith(('np.', 'numpy.', 'linalg.')):
            recv = self.ev(e.func.value, env)
            meth = e.func.attr
            if meth == 'copy' and not args and not e.keywords and isinstance(recv, Val):
                return self.copy_of(recv, False)
            if meth == 'astype' and len(args) == 1 and not e.keywords and isinstance(recv, Val):
                if dotted(args[0]) not in ('float', 'np.float64', 'np.float_'):
                    raise OutOfSubset('astype(%s)' % ast.unparse(args[0]))
                return self.copy_of(recv, True)
            if meth == 'flatten' and not args and not e.keywords and isinstance(recv, Val) and recv.shape == 'M':
                return Flat(recv)
            if meth == 'sum' and isinstance(recv, Val):
                return np_sum(recv, self.axis_of(e, env, pos=0))
            if meth == 'dot' and len(args) == 1 and not e.keywords and isinstance(recv, Val):
                return matmul(recv, self.ev(args[0], env))
            if meth == 'transpose' and not args and not e.keywords and isinstance(recv, Val):
                return transpose(recv)
            raise OutOfSubset('method call %s' % ast.unparse(e))
        if fn == 'cuberoot' and len(args) == 1 and not e.keywords:
            self.check_cuberoot()
            return ewise1(lambda t: ('cbrt', fin(t, 'cuberoot')), self.ev(args[0], env))
        if fn in INLINE:
            return self.inline(fn, e, env)
        raise OutOfSubset('call %s' % ast.unparse(e)[:80])

    def copy_of(self, x, tofloat):
        f = x.f
        if tofloat:
            g = {'S': lambda: to_float(f()), 'V': lambda i: to_float(f(i)), 'M': lambda i, j: to_float(f(i, j))}[x.shape]
        else:
            g = f
        return Val(x.shape, g, nat=x.nat and not tofloat, dim=x.dim)

    def check_cuberoot(self):
        src, nd = self.fundef('bct/utils/miscellaneous_utilities.py', 'cuberoot')
        body = [s for s in nd.body if not (isinstance(s, ast.Expr) and isinstance(s.value, ast.Constant))]
        ok = len(body) == 1 and isinstance(body[0], ast.Return) and ast.unparse(body[0].value) in (
            'np.sign(x) * np.abs(x) ** (1 / 3)', 'np.sign(x) * np.abs(x) ** (1.0 / 3)', 'np.sign(x) * np.abs(x) ** (1 / 3.0)', 'np.cbrt(x)')
        if not ok or [a.arg for a in nd.args.args] != ['x']:
            raise OutOfSubset('cuberoot is no longer sign(x)*|x|^(1/3): the abstract cbrt model does not apply')

    def inline(self, fn, call, env):
        rel, kinds = INLINE[fn]
        src, nd = self.fundef(rel, fn)
        params = [a.arg for a in nd.args.args]
        defaults = dict(zip(params[len(params) - len(nd.args.defaults):], nd.args.defaults))
        if nd.args.vararg or nd.args.kwarg or nd.args.kwonlyargs:
            raise OutOfSubset('signature of %s' % fn)
        bound = {}
        for p, a in zip(params, call.args):
            bound[p] = self.ev(a, env)
        if len(call.args) > len(params):
            raise OutOfSubset('too many arguments for %s' % fn)
        for k in call.keywords:
            if k.arg not in params or k.arg in bound:
                raise OutOfSubset('keyword %s for %s' % (k.arg, fn))
            bound[k.arg] = self.ev(k.value, env)
        for p in params:
            if p not in bound:
                if p not in defaults:
                    raise OutOfSubset('missing argument %s for %s' % (p, fn))
                bound[p] = self.ev(defaults[p], {})
        before = {v.oid for v in env.values() if isinstance(v, Val)} | {v.oid for v in bound.values() if isinstance(v, Val)}
        sub = Body(self, fn, dict(bound), report=None)
        ret = sub.run(nd.body)
        if sub.mutated & before:
            raise OutOfSubset('inlined callee %s stores into an array of its caller' % fn)
        if ret is None:
            raise OutOfSubset('inlined callee %s does not return a value on this path' % fn)
        return ret


# calls that stay ABSTRACT: an uninterpreted Lean function applied to the (named, separately emitted) argument definitions.
# Their contracts are hypotheses of the theorems that need them (assumed contract on a dependency).
#   python callee -> (lean function, argument shapes, result shape)
ABSTRACT = {
    'linalg.solve': ('solve', ['M', 'V'], 'V'), 'np.linalg.solve': ('solve', ['M', 'V'], 'V'), 'scipy.linalg.solve': ('solve', ['M', 'V'], 'V'),
    'linalg.expm': ('expm', ['M'], 'M'), 'scipy.linalg.expm': ('expm', ['M'], 'M'),
    'mean_first_passage_time': ('mfpt', ['M'], 'M'),
    'np.argmax': ('argmax', ['V'], 'I'),
}
ABSTRACT_EIG = {'linalg.eig', 'np.linalg.eig', 'scipy.linalg.eig'}       # -> (eigvals arg, eigvecs arg)
_MT, _VT = '(Fin n → Fin n → ℝ)', '(Fin n → ℝ)'
ABSTRACT_TYPES = [          # order of the abstract-function parameters of a generated definition
    ('cbrt', 'ℝ → ℝ'), ('canon', '%s → Fin n → ℝ' % _VT), ('solve', '%s → %s → Fin n → ℝ' % (_MT, _VT)),
    ('expm', '%s → Fin n → Fin n → ℝ' % _MT), ('mfpt', '%s → Fin n → Fin n → ℝ' % _MT),
    ('eigvals', '%s → Fin n → ℝ' % _MT), ('eigvecs', '%s → Fin n → Fin n → ℝ' % _MT), ('argmax', '%s → Fin n' % _VT), ('sqrt', 'ℝ → ℝ')]


def abstract_used(text):
    import re
    return [(nm, ty) for nm, ty in ABSTRACT_TYPES if re.search(r'(?<![A-Za-z0-9_])%s(?![A-Za-z0-9_])' % nm, text)]


# functions of the library that are inlined at their call sites (file, -)
INLINE = {'binarize': ('bct/utils/other.py', None)}


class Body:
    """symbolic execution of one function body with value semantics"""
    def __init__(self, ex, name, env, report, opaque=None):
        self.ex, self.name, self.env = ex, name, env
        self.opaque = dict(opaque or {})
        self.opaque_used = []
        self.report = report if report is not None else {'taken': [], 'dropped': [], 'poisoned': []}
        self.mutated = set()
        self.ret = None
        self.done = False

    def note(self, kind, st, why=''):
        txt = ast.unparse(st).split('\n')[0][:110]
        self.report[kind].append(txt + ((' -- ' + why) if why else ''))

    def poison(self, names, why, st):
        for nm in names:
            self.env[nm] = Poison(why)
        self.note('poisoned', st, why + ' => poisons ' + ', '.join(sorted(names)))

    def rebind_inplace(self, name, old, new):
        """an in-place store: every name bound to the same python object sees the new value; views of it are refused"""
        self.mutated.add(old.oid)
        for k, v in list(self.env.items()):
            if v is old:
                self.env[k] = new
            elif isinstance(v, Val) and v.oid == old.oid:
                self.env[k] = Poison('view of an array that is modified in place')

    def run(self, stmts):
        for pos, st in enumerate(stmts):
            if self.done:
                self.report['dropped'].append('%d statement(s) after the return taken on this path (unreachable)' % (len(stmts) - pos))
                break
            if isinstance(st, ast.If) and not st.orelse and len(st.body) == 1 and isinstance(st.body[0], ast.Return) \
                    and st.body[0].value is not None and self.early_return(st, stmts[pos + 1:]):
                break
            self.stmt(st)
            for nm, kind in self.opaque.items():
                if isinstance(self.env.get(nm), Poison):
                    # declared opaque: the value is computed by code outside the subset; it becomes a FREE parameter of the Lean
                    # definition (theorems hold for every value of it, in particular they do not use how it depends on other inputs)
                    why = self.env[nm].why
                    self.env[nm] = Val('V', (lambda nm: lambda i: ('app', nm, [i]))(nm)) if kind == 'vec' else S(('sc', nm))
                    self.opaque_used.append(nm)
                    self.report['dropped'].append('OPAQUE %s: not extracted (%s); free %s parameter of the definition' % (nm, why[:90], kind))
        return self.ret

    def early_return(self, st, rest):
        """`if c: return v` with a data-dependent scalar c, followed by the rest of the block:  result = if c then v else <rest>"""
        try:
            t = self.ex.ev(st.test, self.env)
        except OutOfSubset:
            return False
        if isinstance(t, Const) or not (isinstance(t, Val) and t.shape == 'S'):
            return False
        c = truth(t.f())
        a = as_val(self.ex.ev(st.body[0].value, self.env))
        sub = Body(self.ex, self.name, dict(self.env), {'taken': [], 'dropped': [], 'poisoned': []}, self.opaque)
        b = sub.run(rest)
        if b is None or sub.mutated:
            raise OutOfSubset('no value / in-place store after an early return')
        b = as_val(b)
        if a.shape != 'S' or b.shape != 'S':
            raise OutOfSubset('early return of a non-scalar under a data-dependent condition')
        self.note('taken', st, 'early return, if-converted')
        for k in ('taken', 'poisoned', 'dropped'):
            self.report[k] += sub.report[k]
        self.ret = Val('S', lambda: ('ite', c, fin(a.f(), 'early return'), fin(b.f(), 'return')))
        self.done = True
        return True

    def stmt(self, st):
        env, ex = self.env, self.ex
        if isinstance(st, ast.Expr) and isinstance(st.value, ast.Constant):
            self.report['dropped'].append('docstring')
            return
        if isinstance(st, (ast.Import, ast.ImportFrom)):
            self.note('dropped', st, 'import')
            return
        if isinstance(st, ast.Pass):
            return
        if isinstance(st, ast.Return):
            if st.value is None:
                raise OutOfSubset('bare return')
            self.ret = ex.ev(st.value, env)          # a refusal here refuses the function
            self.done = True
            self.note('taken', st)
            return
        if isinstance(st, ast.FunctionDef):
            env[st.name] = Closure(st)
            self.note('dropped', st, 'nested def: defining it has no effect; any use of %s is out of the subset' % st.name)
            return
        if isinstance(st, ast.Assign):
            try:
                if len(st.targets) == 1 and isinstance(st.targets[0], ast.Name):
                    env[st.targets[0].id] = ex.ev(st.value, env)
                    self.note('taken', st)
                    return
                if len(st.targets) == 1 and isinstance(st.targets[0], ast.Subscript):
                    self.store(st)
                    self.note('taken', st)
                    return
                if len(st.targets) == 1 and isinstance(st.targets[0], ast.Tuple) and all(isinstance(t, ast.Name) for t in st.targets[0].elts):
                    v = ex.ev(st.value, env)
                    if isinstance(v, PyTuple) and len(v.items) == len(st.targets[0].elts):
                        for t, x in zip(st.targets[0].elts, v.items):
                            env[t.id] = x
                        self.note('taken', st)
                        return
                raise OutOfSubset('assignment form')
            except OutOfSubset as e:
                self.poison(may_touch([st]) or {'<none>'}, str(e), st)
                return
        if isinstance(st, ast.AugAssign):
            try:
                if not isinstance(st.target, ast.Name):
                    raise OutOfSubset('augmented assignment to a non-name')
                old = ex.ev(st.target, env)
                new = ex.ev(ast.BinOp(left=ast.Name(id=st.target.id, ctx=ast.Load()), op=st.op, right=st.value), env)
                if isinstance(old, Val) and old.shape != 'S' and isinstance(new, Val):
                    new.oid = old.oid
                    self.rebind_inplace(st.target.id, old, new)       # arrays: += works in place
                else:
                    env[st.target.id] = new
                self.note('taken', st)
            except OutOfSubset as e:
                self.poison(may_touch([st]), str(e), st)
            return
        if isinstance(st, ast.Expr) and isinstance(st.value, ast.Call):
            try:
                c = st.value
                if dotted(c.func) == 'np.fill_diagonal' and len(c.args) == 2 and not c.keywords and isinstance(c.args[0], ast.Name):
                    old = as_val(ex.ev(c.args[0], env))
                    v = as_val(ex.ev(c.args[1], env))
                    if old.shape != 'M' or v.shape != 'S':
                        raise OutOfSubset('np.fill_diagonal shapes')
                    new = Val('M', lambda i, j: ('ite', ('ixeq', i, j), fin(v.f(), 'fill value'), fin(old.f(i, j), 'np.fill_diagonal')), oid=old.oid)
                    self.rebind_inplace(c.args[0].id, old, new)
                    self.note('taken', st)
                    return
                raise OutOfSubset('call statement %s' % ast.unparse(st)[:60])
            except OutOfSubset as e:
                self.poison(may_touch([st]) or {'<none>'}, str(e), st)
            return
        if isinstance(st, ast.If):
            self.if_(st)
            return
        if isinstance(st, ast.With) and all(isinstance(it.context_expr, ast.Call) and dotted(it.context_expr.func) == 'np.errstate'
                                            and it.optional_vars is None for it in st.items):
            self.report['dropped'].append('with np.errstate(...): floating-point warning control only; body taken')
            for s2 in st.body:
                self.stmt(s2)
            return
        if isinstance(st, (ast.For, ast.While, ast.With, ast.Try)):
            self.poison(may_touch([st]), '%s statement (control flow outside the subset)' % type(st).__name__.lower(), st)
            return
        if isinstance(st, ast.Raise):
            raise OutOfSubset('raise on the extracted path')
        if isinstance(st, ast.Assert):
            self.note('dropped', st, 'assert')
            return
        raise OutOfSubset('statement %s' % type(st).__name__)

    def store(self, st):
        """X[mask] = c  /  X[np.where(mask)] = c  with a scalar constant c (np.inf gives the extended value)"""
        env, ex = self.env, self.ex
        tgt = st.targets[0]
        if not isinstance(tgt.value, ast.Name):
            raise OutOfSubset('store into %s' % ast.unparse(tgt))
        old = as_val(ex.ev(tgt.value, env))
        ix = tgt.slice
        if isinstance(ix, ast.Call) and dotted(ix.func) == 'np.where' and len(ix.args) == 1 and not ix.keywords:
            ix = ix.args[0]
        mask = ex.ev(ix, env)
        if not isinstance(mask, Val) or mask.shape != old.shape or old.shape == 'S':
            raise OutOfSubset('store %s: index is not a mask of the same shape' % ast.unparse(tgt))
        probe = mask.f(('ix', '_p')) if mask.shape == 'V' else mask.f(('ix', '_p'), ('ix', '_q'))
        if not is_prop(probe):
            raise OutOfSubset('store %s: index array is not boolean (integer fancy indexing)' % ast.unparse(tgt))
        v = ex.ev(st.value, env)
        if not isinstance(v, Const) or isinstance(v.v, (str, type(None))):
            raise OutOfSubset('masked store of a non-constant')
        if v.v == INF:
            mk = lambda g, o: Ext(g, fin(o, 'masked store'))
        else:
            c = const_term(v)
            mk = lambda g, o: ('ite', g, c, fin(o, 'masked store'))
        if old.shape == 'V':
            new = Val('V', lambda i: mk(mask.f(i), old.f(i)), oid=old.oid)
        else:
            new = Val('M', lambda i, j: mk(mask.f(i, j), old.f(i, j)), oid=old.oid)
        self.rebind_inplace(tgt.value.id, old, new)

    def if_(self, st):
        env, ex = self.env, self.ex
        try:
            t = ex.ev(st.test, env)
        except OutOfSubset as e:
            self.poison(may_touch(st.body + st.orelse), 'if %s: %s' % (ast.unparse(st.test), e), st)
            return
        if isinstance(t, Const):
            live, dead = (st.body, st.orelse) if t.v else (st.orelse, st.body)
            self.report['dropped'].append('if %s: statically %s for the declared parameters -> %d statement(s) of the other branch are dead code' % (
                ast.unparse(st.test), bool(t.v), len(dead)))
            for s in live:
                self.stmt(s)
            return
        if isinstance(t, Val) and t.shape == 'S':
            # if-conversion for scalar assignments: x = if c then x_then else x_else
            c = t.f()
            c = truth(c)
            envs = []
            for blk in (st.body, st.orelse):
                sub = Body(ex, self.name, dict(env), {'taken': [], 'dropped': [], 'poisoned': []})
                for s in blk:
                    if isinstance(s, (ast.Return, ast.Raise)):
                        raise OutOfSubset('return/raise under a data-dependent condition')
                    sub.stmt(s)
                if sub.mutated:
                    raise OutOfSubset('in-place store under a data-dependent condition')
                envs.append(sub.env)
                for k in ('taken', 'poisoned', 'dropped'):
                    self.report[k] += ['[if %s] %s' % (ast.unparse(st.test), x) for x in sub.report[k]]
            a, b = envs
            for k in set(a) | set(b):
                va, vb = a.get(k), b.get(k)
                if va is vb:
                    env[k] = va
                    continue
                ok = all(isinstance(v, (Val, Const)) and not isinstance(getattr(v, 'v', 0), (str, type(None))) for v in (va, vb))
                if ok:
                    xa, xb = as_val(va), as_val(vb)
                    if xa.shape == 'S' and xb.shape == 'S':
                        env[k] = Val('S', (lambda xa=xa, xb=xb: ('ite', c, fin(xa.f(), 'conditional'), fin(xb.f(), 'conditional'))))
                        continue
                env[k] = Poison('assigned under the data-dependent condition %s (not a scalar on both paths)' % ast.unparse(st.test))
            self.note('taken', st, 'if-converted')
            return
        self.poison(may_touch(st.body + st.orelse), 'condition %s is neither static nor a scalar' % ast.unparse(st.test), st)


# ------------------------------------------------------------------------------------------------------------------------
# targets: file, function, parameter kinds ('mat' | 'vec' | 'scalar' | ('const', value)), names of the returned components
DEG = 'bct/algorithms/degree.py'
PHY = 'bct/algorithms/physical_connectivity.py'
CLU = 'bct/algorithms/clustering.py'
MOD = 'bct/algorithms/modularity.py'
TARGETS = [
    (DEG, 'degrees_und', {'CIJ': 'mat'}),
    (DEG, 'degrees_dir', {'CIJ': 'mat'}),
    (DEG, 'strengths_und', {'CIJ': 'mat'}),
    (DEG, 'strengths_dir', {'CIJ': 'mat'}),
    (PHY, 'density_und', {'CIJ': 'mat'}),
    (PHY, 'density_dir', {'CIJ': 'mat'}),
    (CLU, 'clustering_coef_bd', {'A': 'mat'}),
    (CLU, 'clustering_coef_wd', {'W': 'mat'}),
    (CLU, 'clustering_coef_wu', {'W': 'mat'}),
    (CLU, 'transitivity_bu', {'A': 'mat'}),
    (CLU, 'transitivity_bd', {'A': 'mat'}),
    (CLU, 'transitivity_wu', {'W': 'mat'}),
    (CLU, 'transitivity_wd', {'W': 'mat'}),
    # given-partition quality: kci is a label vector (not None), gamma a real scalar
    (MOD, 'modularity_und', {'A': 'mat', 'gamma': 'scalar', 'kci': 'vec'}),
    (MOD, 'modularity_dir', {'A': 'mat', 'gamma': 'scalar', 'kci': 'vec'}),
]
# C18: LAPACK / callee results are abstract functions (solve, mfpt, expm, eigvals/eigvecs, argmax); see ABSTRACT
CEN = 'bct/algorithms/centrality.py'
EFF = 'bct/algorithms/efficiency.py'
TARGETS += [
    (CEN, 'pagerank_centrality', {'A': 'mat', 'd': 'scalar', 'falff': ('const', None)}, None, '_uniform'),
    (CEN, 'pagerank_centrality', {'A': 'mat', 'd': 'scalar', 'falff': 'vec'}, None, '_falff'),
    (EFF, 'diffusion_efficiency', {'adj': 'mat'}),
    (CEN, 'subgraph_centrality', {'CIJ': 'mat'}),
    (CEN, 'eigenvector_centrality_und', {'CIJ': 'mat'}),
]
# C15 (callee contracts assumed by the pyvc tier): binarize itself (degrees_*, strengths_* are already targets)
TARGETS.append(('bct/utils/other.py', 'binarize', {'W': 'mat', 'copy': ('const', True)}))
# C19: the two t-statistic closures of nbs_bct, one definition per tail; groups of sizes n1, n2 / n pairs
NBS = 'bct/nbs.py'
for _t in ('both', 'left', 'right'):
    TARGETS.append((NBS, 'nbs_bct.ttest2_stat_only', {'x': ('vec', 'n1'), 'y': ('vec', 'n2'), 'tail': ('const', _t)}, None, '_' + _t))
    TARGETS.append((NBS, 'nbs_bct.ttest_paired_stat_only', {'A': ('vec', 'n'), 'B': ('vec', 'n'), 'tail': ('const', _t)}, None, '_' + _t))
# the p-value statement of nbs_bct as a fragment: null has k entries (np.zeros((k,)) in the code), i indexes the components
TARGETS.append((NBS, 'nbs_bct#pvals[i]', {'null': ('vec', 'k'), 'sz_links': ('vec', 'c'), 'i': ('idx', 'c'), 'k': ('nat', 'k')}))
# modularity_und_sign, one definition per documented qtype (the string parameter is fixed, the if/elif chain is decided statically).
# Kn0 / Kn1 are accumulated by a loop over modules (outside the subset): declared opaque = free vector parameters
for _q in ('sta', 'smp', 'gja', 'pos', 'neg'):
    TARGETS.append((MOD, 'modularity_und_sign', {'W': 'mat', 'ci': 'vec', 'qtype': ('const', _q)}, {'Kn0': 'vec', 'Kn1': 'vec'}, '_' + _q))

LEAN_TYPES = {'M': 'Fin n → Fin n → ℝ', 'V': 'Fin n → ℝ', 'S': 'ℝ'}


def extract_function(ex, rel, name, kinds, opaque=None, suffix=''):
    """returns (list of (lean_name, lean_text), report)"""
    frag = None
    if '#' in name:                                   # 'function#target-text': one assignment inside the function (fragment)
        name, frag = name.split('#', 1)
    src, nd = ex.fundef(rel, name)
    pyname = name.split('.')[0]                       # the public bct function (for 'outer.inner' the outer one)
    name = name.split('.')[-1]
    if frag is not None:
        name = '%s_%s' % (name, ''.join(ch if ch.isalnum() else '_' for ch in frag).strip('_'))
    seg = ast.get_source_segment(src, nd) or ''
    report = {'function': pyname, 'target': name + suffix, 'file': rel, 'sha1': hashlib.sha1(seg.encode()).hexdigest()[:12], 'taken': [], 'dropped': [], 'poisoned': [],
              'decorators': [ast.unparse(d)[:60] for d in nd.decorator_list], 'defs': []}
    if nd.decorator_list:
        report['dropped'].append('decorators (transparent): ' + '; '.join(report['decorators']))
    params = [a.arg for a in nd.args.args]
    if nd.args.vararg or nd.args.kwarg or nd.args.kwonlyargs:
        raise OutOfSubset('signature')
    if frag is not None:
        params = list(kinds)                          # free names of the fragment, kinds declared in TARGETS
        report['dropped'].append('FRAGMENT: only the statement `%s = ...` of %s is extracted; the names %s are free parameters (nothing is '
                                 'claimed about how the surrounding code computes them)' % (frag, pyname, ', '.join(params)))
    elif set(params) != set(kinds):
        raise OutOfSubset('signature changed: parameters %s, expected %s' % (params, sorted(kinds)))
    env, lean_params, named = {}, [], []
    dims = []
    for p in params:
        k = kinds[p]
        if isinstance(k, tuple) and k[0] in ('vec', 'idx', 'nat'):
            dm = k[1]
            if dm not in dims:
                dims.append(dm)
            if k[0] == 'vec':
                env[p] = Val('V', (lambda p: lambda i: ('app', p, [i]))(p), dim=dm)
                lean_params.append('(%s : Fin %s → ℝ)' % (p, dm)); named.append(p)
            elif k[0] == 'idx':
                env[p] = Val('I', (lambda p: lambda: ('ix', p))(p), dim=dm)
                lean_params.append('(%s : Fin %s)' % (p, dm)); named.append(p)
            else:
                env[p] = Val('S', (lambda dm: lambda: ('n', dm))(dm), nat=True, dim=dm)
            continue
        if k in ('mat', 'vec') and 'n' not in dims:
            dims.append('n')
        if k == 'mat':
            env[p] = Val('M', (lambda p: lambda i, j: ('app', p, [i, j]))(p))
            lean_params.append('(%s : Fin n → Fin n → ℝ)' % p); named.append(p)
        elif k == 'vec':
            env[p] = Val('V', (lambda p: lambda i: ('app', p, [i]))(p))
            lean_params.append('(%s : Fin n → ℝ)' % p); named.append(p)
        elif k == 'scalar':
            env[p] = S(('sc', p))
            lean_params.append('(%s : ℝ)' % p); named.append(p)
        else:
            env[p] = Const(k[1])
            report['dropped'].append('parameter %s fixed to the constant %r' % (p, k[1]))
    ex.ctx = {'name': name + suffix, 'params': list(zip(lean_params, named)), 'aux': [], 'ncall': 0, 'abstract_calls': []}
    body = Body(ex, name, env, report, opaque)
    if frag is not None:
        hits = [x for x in ast.walk(nd) if isinstance(x, ast.Assign) and len(x.targets) == 1 and ast.unparse(x.targets[0]) == frag]
        if len(hits) != 1:
            raise OutOfSubset('fragment `%s = ...` occurs %d times in %s' % (frag, len(hits), pyname))
        ret = ex.ev(hits[0].value, env)
        body.note('taken', hits[0])
    else:
        ret = body.run(nd.body)
    if ret is None:
        raise OutOfSubset('no return value on the extracted path')
    comps = ret.items if isinstance(ret, PyTuple) else [ret]
    defs = []
    for idx, c in enumerate(comps):
        lname = name + suffix if len(comps) == 1 else '%s%s_ret%d' % (name, suffix, idx)
        v = as_val(c)
        if v.shape == 'S':
            t = fin(v.f(), 'returned value')
            text, binder = pp(t), ''
        elif v.shape == 'V':
            t = fin(v.f(('ix', 'i')), 'returned value')
            text, binder = pp(t), 'fun i => '
        else:
            t = fin(v.f(('ix', 'i'), ('ix', 'j')), 'returned value')
            text, binder = pp(t), 'fun i j => '
        ps = list(lean_params) + ['(%s : %s)' % (nm, 'Fin n → ℝ' if (opaque or {})[nm] == 'vec' else 'ℝ') for nm in body.opaque_used]
        ps = ['(%s : %s)' % p for p in abstract_used(text)] + ps
        rtype = LEAN_TYPES[v.shape] if v.shape != 'V' else 'Fin %s → ℝ' % v.dim
        lean = 'noncomputable def %s {%s : ℕ} %s : %s :=\n  %s%s\n' % (lname, ' '.join(dims or ['n']), ' '.join(ps), rtype, binder, text)
        defs.append((lname, lean))
        report['defs'].append({'name': lname, 'shape': v.shape, 'params': ps, 'chars': len(text)})
    # argument definitions of abstract calls: keep those that the returned value (transitively) mentions
    keep, texts = [], [t for _, t in defs]
    changed = True
    while changed:
        changed = False
        for a in ex.ctx['aux']:
            if a not in keep and any(a[0] in t for t in texts):
                keep.append(a); texts.append(a[1]); changed = True
    aux = [a for a in ex.ctx['aux'] if a in keep]
    report['abstract_calls'] = ex.ctx['abstract_calls']
    if ex.ctx['abstract_calls']:
        report['dropped'].append('ABSTRACT calls (uninterpreted; contracts are hypotheses of the theorems): ' + '; '.join(ex.ctx['abstract_calls']))
    for lname, lean, shape in aux:
        report['defs'].append({'name': lname, 'shape': shape, 'params': [], 'chars': len(lean), 'aux': True})
    return [(a[0], a[1]) for a in aux] + defs, report


HEADER = """/-
Extracted.lean — GENERATED by engine/lean/extract.py from %(repo)s ; do not edit.
Definitions only.  Matrices are functions Fin n → Fin n → ℝ, vectors Fin n → ℝ.
Dropped by the extraction: float64 rounding (ℝ), x/0 (= 0 in Lean, inf/nan in numpy), dtype, decorators, docstrings, imports,
copies/aliasing (value semantics), shape errors; `cuberoot` is an abstract `cbrt : ℝ → ℝ`.
-/
import Mathlib.Algebra.BigOperators.Group.Finset.Basic
import Mathlib.Algebra.BigOperators.Ring.Finset
import Mathlib.Algebra.BigOperators.Field
import Mathlib.Data.Fintype.BigOperators
import Mathlib.Data.Fintype.Perm
import Mathlib.Data.Real.Basic
import Mathlib.Tactic.Ring
import Mathlib.Tactic.FieldSimp
import Mathlib.Tactic.Linarith

set_option linter.unusedVariables false
set_option linter.unusedSectionVars false

namespace Extracted
open BigOperators Finset
"""


def extract_all(repo=None, only=None):
    ex = Extractor(repo or REPO)
    out, reports = [], []
    for tgt in TARGETS:
        rel, name, kinds = tgt[:3]
        if only and name not in only:
            continue
        try:
            suffix = tgt[4] if len(tgt) > 4 else ''
            defs, rep = extract_function(ex, rel, name, kinds, tgt[3] if len(tgt) > 3 else None, suffix)
            rep['status'] = 'extracted'
            out.append('/- %s.%s%s  (sha1 of source %s)\n   taken:\n%s\n   dropped / not needed for the result:\n%s\n-/' % (
                rel, name, (' [variant %s]' % suffix) if suffix else '', rep['sha1'],
                '\n'.join('     ' + t for t in rep['taken']) or '     -',
                '\n'.join('     ' + t for t in rep['dropped'] + rep['poisoned']) or '     -'))
            for _, text in defs:
                out.append(text)
        except OutOfSubset as e:
            rep = {'function': name.split('#')[0].split('.')[0], 'target': name + (tgt[4] if len(tgt) > 4 else ''), 'file': rel, 'status': 'refused', 'reason': str(e), 'defs': []}
            out.append('/- %s.%s  REFUSED (out of the subset): %s -/\n' % (rel, name, str(e).replace('-/', '- /')))
        except (OSError, SyntaxError) as e:
            rep = {'function': name.split('#')[0].split('.')[0], 'target': name + (tgt[4] if len(tgt) > 4 else ''), 'file': rel, 'status': 'refused', 'reason': 'cannot read/parse: %r' % (e,), 'defs': []}
            out.append('/- %s.%s  REFUSED: %r -/\n' % (rel, name, e))
        reports.append(rep)
    text = HEADER % {'repo': ex.repo} + '\n' + '\n'.join(out) + '\nend Extracted\n'
    return text, reports


def main():
    ap = argparse.ArgumentParser()
    ap.add_argument('--repo', default=REPO)
    here = os.path.dirname(os.path.abspath(__file__))
    ap.add_argument('--out', default=os.path.join(here, 'Extracted.lean'))
    ap.add_argument('--report', default=os.path.join(here, 'build', 'extract_report.json'))
    ap.add_argument('--only', nargs='*')
    a = ap.parse_args()
    text, reports = extract_all(a.repo, a.only)
    os.makedirs(os.path.dirname(a.report), exist_ok=True)
    with open(a.out, 'w') as fh:
        fh.write(text)
    with open(a.report, 'w') as fh:
        json.dump(reports, fh, indent=1)
    for r in reports:
        print('%-26s %s %s' % (r['target'], r['status'], r.get('reason', ', '.join(d['name'] for d in r['defs']))))
    return 0


if __name__ == '__main__':
    sys.exit(main())
