/-
VerifLemmas.lean — code-independent mathematics behind the SMT axioms / lemma instances of engine/pyvc/core.py.
Checked by `lean` on every run of the checks that rely on it (no `sorry`, no `axiom`: scanned by checks/lean_check.py).
-/
import Mathlib.Algebra.BigOperators.Group.Finset.Basic
import Mathlib.Algebra.BigOperators.Ring.Finset
import Mathlib.Algebra.BigOperators.Field
import Mathlib.Data.Fintype.BigOperators
import Mathlib.Data.Real.Basic
import Mathlib.Tactic.Ring
import Mathlib.Tactic.FieldSimp
import Mathlib.Tactic.Linarith

set_option linter.unusedSectionVars false

namespace VerifLemmas

section gain
open BigOperators Finset
variable {ι : Type} [Fintype ι] [DecidableEq ι] {μ : Type} [DecidableEq μ]

noncomputable def Qraw (B : ι → ι → ℝ) (c : ι → μ) : ℝ := ∑ x, ∑ y, if c x = c y then B x y else 0
noncomputable def nm (B : ι → ι → ℝ) (c : ι → μ) (u : ι) (m : μ) : ℝ := ∑ y, if c y = m then B u y else 0

private lemma split_at (u : ι) (g : ι → ℝ) : ∑ x, g x = g u + ∑ x ∈ univ.erase u, g x := by
  classical
  rw [Finset.add_sum_erase _ _ (mem_univ u)]

/-- moving node u to module b ≠ c u, arbitrary (possibly asymmetric) kernel B -/
theorem Qraw_move (B : ι → ι → ℝ) (c : ι → μ) (u : ι) (b : μ) (hb : b ≠ c u) :
    Qraw B (Function.update c u b) - Qraw B c
      = (nm B c u b - nm B c u (c u) + B u u)
        + (nm (fun x y => B y x) c u b - nm (fun x y => B y x) c u (c u) + B u u) := by
  classical
  set c' := Function.update c u b with hc'
  have cu : c' u = b := by simp [hc']
  have cne : ∀ x, x ≠ u → c' x = c x := by intro x hx; simp [hc', hx]
  have hrow : ∀ x, x ≠ u →
      (∑ y, if c' x = c' y then B x y else 0) - (∑ y, if c x = c y then B x y else 0)
        = (if c x = b then B x u else 0) - (if c x = c u then B x u else 0) := by
    intro x hx
    rw [split_at u (fun y => if c' x = c' y then B x y else 0),
        split_at u (fun y => if c x = c y then B x y else 0)]
    have : ∑ y ∈ univ.erase u, (if c' x = c' y then B x y else 0)
         = ∑ y ∈ univ.erase u, (if c x = c y then B x y else 0) := by
      apply Finset.sum_congr rfl
      intro y hy
      have hy' : y ≠ u := (Finset.mem_erase.mp hy).1
      rw [cne x hx, cne y hy']
    rw [this, cu, cne x hx]; ring
  have hu : (∑ y, if c' u = c' y then B u y else 0) - (∑ y, if c u = c y then B u y else 0)
        = (∑ y ∈ univ.erase u, ((if c y = b then B u y else 0) - (if c y = c u then B u y else 0))) := by
    rw [split_at u (fun y => if c' u = c' y then B u y else 0),
        split_at u (fun y => if c u = c y then B u y else 0), Finset.sum_sub_distrib]
    have h1 : ∑ y ∈ univ.erase u, (if c' u = c' y then B u y else 0)
         = ∑ y ∈ univ.erase u, (if c y = b then B u y else 0) := by
      apply Finset.sum_congr rfl
      intro y hy
      have hy' : y ≠ u := (Finset.mem_erase.mp hy).1
      rw [cu, cne y hy']
      by_cases h : c y = b
      · simp [h]
      · have h' : ¬ b = c y := fun e => h e.symm
        simp [h, h']
    have h2 : ∑ y ∈ univ.erase u, (if c u = c y then B u y else 0)
         = ∑ y ∈ univ.erase u, (if c y = c u then B u y else 0) := by
      apply Finset.sum_congr rfl
      intro y _
      by_cases h : c y = c u
      · simp [h]
      · have h' : ¬ c u = c y := fun e => h e.symm
        simp [h, h']
    rw [h1, h2]
    simp only [if_true]
    ring
  have hnb : nm B c u b = ∑ y ∈ univ.erase u, (if c y = b then B u y else 0) := by
    unfold nm
    rw [split_at u (fun y => if c y = b then B u y else 0)]
    simp [Ne.symm hb]
  have hna : nm B c u (c u) = B u u + ∑ y ∈ univ.erase u, (if c y = c u then B u y else 0) := by
    unfold nm
    rw [split_at u (fun y => if c y = c u then B u y else 0)]
    simp
  unfold Qraw
  rw [← Finset.sum_sub_distrib]
  rw [split_at u]
  have hrest : ∑ x ∈ univ.erase u, ((∑ y, if c' x = c' y then B x y else 0)
                                      - ∑ y, if c x = c y then B x y else 0)
      = ∑ x ∈ univ.erase u, ((if c x = b then B x u else 0) - (if c x = c u then B x u else 0)) := by
    apply Finset.sum_congr rfl
    intro x hx
    have hx' : x ≠ u := (Finset.mem_erase.mp hx).1
    rw [hrow x hx']
  have hnbT : nm (fun x y => B y x) c u b = ∑ y ∈ univ.erase u, (if c y = b then B y u else 0) := by
    unfold nm
    rw [split_at u (fun y => if c y = b then B y u else 0)]
    simp [Ne.symm hb]
  have hnaT : nm (fun x y => B y x) c u (c u)
      = B u u + ∑ y ∈ univ.erase u, (if c y = c u then B y u else 0) := by
    unfold nm
    rw [split_at u (fun y => if c y = c u then B y u else 0)]
    simp
  rw [hu, hrest, hnb, hna, hnbT, hnaT, Finset.sum_sub_distrib, Finset.sum_sub_distrib]
  ring

/-- symmetric kernel: the classical factor 2 -/
theorem Qraw_move_symm (B : ι → ι → ℝ) (hB : ∀ x y, B x y = B y x) (c : ι → μ) (u : ι) (b : μ)
    (hb : b ≠ c u) :
    Qraw B (Function.update c u b) - Qraw B c = 2 * (nm B c u b - nm B c u (c u) + B u u) := by
  have hT : (fun x y => B y x) = B := by funext x y; exact (hB x y).symm
  rw [Qraw_move B c u b hb, hT]; ring

/-- modularity kernel: node-to-module sums split into weight part and degree part -/
theorem nm_modularity (W : ι → ι → ℝ) (ko ki : ι → ℝ) (γ s : ℝ) (c : ι → μ) (u : ι) (m : μ) :
    nm (fun x y => W x y - γ * ko x * ki y / s) c u m
      = nm W c u m - γ * ko u * (∑ y, if c y = m then ki y else 0) / s := by
  unfold nm
  rw [Finset.mul_sum, Finset.sum_div, ← Finset.sum_sub_distrib]
  apply Finset.sum_congr rfl
  intro y _
  by_cases h : c y = m <;> simp [h]

end gain

section aggregate
open BigOperators Finset
variable {ι : Type} [Fintype ι] [DecidableEq ι] {μ : Type} [Fintype μ] [DecidableEq μ]

/-- aggregated module-by-module weight matrix: w a b = Σ_{x∈a, y∈b} W x y -/
noncomputable def agg (W : ι → ι → ℝ) (c : ι → μ) (a b : μ) : ℝ :=
  ∑ x, ∑ y, if c x = a ∧ c y = b then W x y else 0

/-- indicator collapse -/
lemma sum_ind_eq (c : ι → μ) (x y : ι) (f : ℝ) :
    (∑ a : μ, if c x = a ∧ c y = a then f else 0) = if c x = c y then f else 0 := by
  by_cases h : c x = c y
  · simp only [h, and_self, if_true]
    rw [Finset.sum_eq_single (c y)]
    · simp
    · intro b _ hb; simp [Ne.symm hb]
    · intro hn; exact absurd (mem_univ _) hn
  · simp only [h, if_false]
    apply Finset.sum_eq_zero
    intro a _
    have : ¬ (c x = a ∧ c y = a) := fun ⟨h1, h2⟩ => h (h1.trans h2.symm)
    simp [this]

/-- trace of the aggregate = within-module weight -/
theorem trace_agg (W : ι → ι → ℝ) (c : ι → μ) :
    (∑ a, agg W c a a) = ∑ x, ∑ y, if c x = c y then W x y else 0 := by
  unfold agg
  rw [Finset.sum_comm]
  apply Finset.sum_congr rfl; intro x _
  rw [Finset.sum_comm]
  apply Finset.sum_congr rfl; intro y _
  exact sum_ind_eq c x y (W x y)

/-- column sums of the aggregate are module in-degrees -/
theorem colsum_agg (W : ι → ι → ℝ) (c : ι → μ) (t : μ) :
    (∑ a, agg W c a t) = ∑ y, if c y = t then (∑ x, W x y) else 0 := by
  unfold agg
  rw [Finset.sum_comm]            -- Σ_x Σ_a Σ_y
  have : ∀ x, (∑ a, ∑ y, if c x = a ∧ c y = t then W x y else 0)
            = ∑ y, if c y = t then W x y else 0 := by
    intro x
    rw [Finset.sum_comm]
    apply Finset.sum_congr rfl; intro y _
    by_cases h : c y = t
    · simp only [h, and_true, if_true]
      rw [Finset.sum_eq_single (c x)]
      · simp
      · intro b _ hb; simp [Ne.symm hb]
      · intro hn; exact absurd (mem_univ _) hn
    · simp [h]
  simp_rw [this]
  rw [Finset.sum_comm]
  apply Finset.sum_congr rfl; intro y _
  by_cases h : c y = t <;> simp [h]

/-- row sums of the aggregate are module out-degrees -/
theorem rowsum_agg (W : ι → ι → ℝ) (c : ι → μ) (t : μ) :
    (∑ b, agg W c t b) = ∑ x, if c x = t then (∑ y, W x y) else 0 := by
  unfold agg
  rw [Finset.sum_comm]            -- Σ_x Σ_b Σ_y
  apply Finset.sum_congr rfl; intro x _
  rw [Finset.sum_comm]            -- Σ_y Σ_b
  by_cases h : c x = t
  · simp only [h, true_and, if_true]
    apply Finset.sum_congr rfl; intro y _
    rw [Finset.sum_eq_single (c y)]
    · simp
    · intro b _ hb; simp [Ne.symm hb]
    · intro hn; exact absurd (mem_univ _) hn
  · simp [h]

/-- Σ of all entries of (w·w) factorises through the middle index -/
theorem sum_sq_agg (w : μ → μ → ℝ) :
    (∑ a, ∑ b, ∑ t, w a t * w t b) = ∑ t, (∑ a, w a t) * (∑ b, w t b) := by
  calc (∑ a, ∑ b, ∑ t, w a t * w t b)
      = ∑ a, ∑ t, ∑ b, w a t * w t b := by
        apply Finset.sum_congr rfl; intro a _; exact Finset.sum_comm
    _ = ∑ t, ∑ a, ∑ b, w a t * w t b := Finset.sum_comm
    _ = ∑ t, (∑ a, w a t) * (∑ b, w t b) := by
        apply Finset.sum_congr rfl; intro t _; rw [Finset.sum_mul_sum]

/-- degree part of modularity grouped by module -/
theorem deg_part (c : ι → μ) (ko ki : ι → ℝ) :
    (∑ x, ∑ y, if c x = c y then ko x * ki y else 0)
      = ∑ t, (∑ x, if c x = t then ko x else 0) * (∑ y, if c y = t then ki y else 0) := by
  symm
  calc (∑ t, (∑ x, if c x = t then ko x else 0) * (∑ y, if c y = t then ki y else 0))
      = ∑ t, ∑ x, ∑ y, (if c x = t then ko x else 0) * (if c y = t then ki y else 0) := by
        apply Finset.sum_congr rfl; intro t _; rw [Finset.sum_mul_sum]
    _ = ∑ x, ∑ t, ∑ y, (if c x = t then ko x else 0) * (if c y = t then ki y else 0) := Finset.sum_comm
    _ = ∑ x, ∑ y, ∑ t, (if c x = t then ko x else 0) * (if c y = t then ki y else 0) := by
        apply Finset.sum_congr rfl; intro x _; exact Finset.sum_comm
    _ = ∑ x, ∑ y, if c x = c y then ko x * ki y else 0 := by
        apply Finset.sum_congr rfl; intro x _
        apply Finset.sum_congr rfl; intro y _
        rw [← sum_ind_eq c x y (ko x * ki y)]
        apply Finset.sum_congr rfl; intro t _
        by_cases h1 : c x = t <;> by_cases h2 : c y = t <;> simp [h1, h2]

/-- C02: the quality computed from the aggregated matrix is the modularity of the labels.
    numpy: q = trace(w)/s - gamma * sum(dot(w/s, w/s)),  w[a,b] = sum(W[ix_(ci==a, ci==b)]) -/
theorem q_from_aggregate (W : ι → ι → ℝ) (c : ι → μ) (γ s : ℝ) (hs : s ≠ 0) :
    (∑ a, agg W c a a) / s - γ * (∑ a, ∑ b, ∑ t, (agg W c a t / s) * (agg W c t b / s))
      = (1 / s) * ∑ x, ∑ y, if c x = c y
            then (W x y - γ * (∑ y', W x y') * (∑ x', W x' y) / s) else 0 := by
  have hsq : (∑ a, ∑ b, ∑ t, (agg W c a t / s) * (agg W c t b / s))
      = (∑ t, (∑ a, agg W c a t) * (∑ b, agg W c t b)) / (s * s) := by
    rw [← sum_sq_agg (agg W c), Finset.sum_div]
    apply Finset.sum_congr rfl; intro a _
    rw [Finset.sum_div]
    apply Finset.sum_congr rfl; intro b _
    rw [Finset.sum_div]
    apply Finset.sum_congr rfl; intro t _
    field_simp
  have hpt : ∀ x y, (if c x = c y then (W x y - γ * (∑ y', W x y') * (∑ x', W x' y) / s) else 0)
       = (if c x = c y then W x y else 0)
         - γ / s * (if c x = c y then (∑ y', W x y') * (∑ x', W x' y) else 0) := by
    intro x y
    by_cases h : c x = c y
    · simp only [h, if_true]; ring
    · simp [h]
  have hsplit : (∑ x, ∑ y, if c x = c y
            then (W x y - γ * (∑ y', W x y') * (∑ x', W x' y) / s) else 0)
      = (∑ x, ∑ y, if c x = c y then W x y else 0)
        - γ / s * (∑ x, ∑ y, if c x = c y then (∑ y', W x y') * (∑ x', W x' y) else 0) := by
    calc (∑ x, ∑ y, if c x = c y then (W x y - γ * (∑ y', W x y') * (∑ x', W x' y) / s) else 0)
        = ∑ x, ∑ y, ((if c x = c y then W x y else 0)
             - γ / s * (if c x = c y then (∑ y', W x y') * (∑ x', W x' y) else 0)) := by
          apply Finset.sum_congr rfl; intro x _
          apply Finset.sum_congr rfl; intro y _
          exact hpt x y
      _ = (∑ x, ∑ y, if c x = c y then W x y else 0)
          - γ / s * (∑ x, ∑ y, if c x = c y then (∑ y', W x y') * (∑ x', W x' y) else 0) := by
          simp only [Finset.sum_sub_distrib, Finset.mul_sum]
  rw [hsq, hsplit, trace_agg, deg_part c (fun x => ∑ y', W x y') (fun y => ∑ x', W x' y)]
  simp_rw [colsum_agg, rowsum_agg]
  have : (∑ t : μ, (∑ y, if c y = t then (∑ x, W x y) else 0) * (∑ x, if c x = t then (∑ y, W x y) else 0))
       = ∑ t : μ, (∑ x, if c x = t then (∑ y, W x y) else 0) * (∑ y, if c y = t then (∑ x, W x y) else 0) := by
    apply Finset.sum_congr rfl; intro t _; ring
  rw [this]
  field_simp

end aggregate

end VerifLemmas
