/-
VerifLemmas.lean — code-independent mathematics behind the SMT axioms / lemma instances of engine/pyvc/core.py.
Checked by `lean` on every run of the checks that rely on it (no `sorry`, no `axiom`: scanned by checks/lean_check.py).
-/
import Mathlib.Algebra.BigOperators.Group.Finset.Basic
import Mathlib.Algebra.BigOperators.Ring.Finset
import Mathlib.Algebra.BigOperators.Field
import Mathlib.Data.Fintype.BigOperators
import Mathlib.Data.Real.Basic
import Mathlib.Tactic.Ring
import Mathlib.Tactic.FieldSimp
import Mathlib.Tactic.Linarith
import Mathlib.Tactic.Abel
import Mathlib.Algebra.Order.BigOperators.Group.Finset
import Mathlib.Order.Lattice.Nat
import Mathlib.Order.Interval.Finset.Nat
import Mathlib.Algebra.Order.Archimedean.Real.Basic

set_option linter.unusedSectionVars false

namespace VerifLemmas

section gain
open BigOperators Finset
variable {ι : Type} [Fintype ι] [DecidableEq ι] {μ : Type} [DecidableEq μ]

noncomputable def Qraw (B : ι → ι → ℝ) (c : ι → μ) : ℝ := ∑ x, ∑ y, if c x = c y then B x y else 0
noncomputable def nm (B : ι → ι → ℝ) (c : ι → μ) (u : ι) (m : μ) : ℝ := ∑ y, if c y = m then B u y else 0

private lemma split_at (u : ι) (g : ι → ℝ) : ∑ x, g x = g u + ∑ x ∈ univ.erase u, g x := by
  classical
  rw [Finset.add_sum_erase _ _ (mem_univ u)]

/-- moving node u to module b ≠ c u, arbitrary (possibly asymmetric) kernel B -/
theorem Qraw_move (B : ι → ι → ℝ) (c : ι → μ) (u : ι) (b : μ) (hb : b ≠ c u) :
    Qraw B (Function.update c u b) - Qraw B c
      = (nm B c u b - nm B c u (c u) + B u u)
        + (nm (fun x y => B y x) c u b - nm (fun x y => B y x) c u (c u) + B u u) := by
  classical
  set c' := Function.update c u b with hc'
  have cu : c' u = b := by simp [hc']
  have cne : ∀ x, x ≠ u → c' x = c x := by intro x hx; simp [hc', hx]
  have hrow : ∀ x, x ≠ u →
      (∑ y, if c' x = c' y then B x y else 0) - (∑ y, if c x = c y then B x y else 0)
        = (if c x = b then B x u else 0) - (if c x = c u then B x u else 0) := by
    intro x hx
    rw [split_at u (fun y => if c' x = c' y then B x y else 0),
        split_at u (fun y => if c x = c y then B x y else 0)]
    have : ∑ y ∈ univ.erase u, (if c' x = c' y then B x y else 0)
         = ∑ y ∈ univ.erase u, (if c x = c y then B x y else 0) := by
      apply Finset.sum_congr rfl
      intro y hy
      have hy' : y ≠ u := (Finset.mem_erase.mp hy).1
      rw [cne x hx, cne y hy']
    rw [this, cu, cne x hx]; ring
  have hu : (∑ y, if c' u = c' y then B u y else 0) - (∑ y, if c u = c y then B u y else 0)
        = (∑ y ∈ univ.erase u, ((if c y = b then B u y else 0) - (if c y = c u then B u y else 0))) := by
    rw [split_at u (fun y => if c' u = c' y then B u y else 0),
        split_at u (fun y => if c u = c y then B u y else 0), Finset.sum_sub_distrib]
    have h1 : ∑ y ∈ univ.erase u, (if c' u = c' y then B u y else 0)
         = ∑ y ∈ univ.erase u, (if c y = b then B u y else 0) := by
      apply Finset.sum_congr rfl
      intro y hy
      have hy' : y ≠ u := (Finset.mem_erase.mp hy).1
      rw [cu, cne y hy']
      by_cases h : c y = b
      · simp [h]
      · have h' : ¬ b = c y := fun e => h e.symm
        simp [h, h']
    have h2 : ∑ y ∈ univ.erase u, (if c u = c y then B u y else 0)
         = ∑ y ∈ univ.erase u, (if c y = c u then B u y else 0) := by
      apply Finset.sum_congr rfl
      intro y _
      by_cases h : c y = c u
      · simp [h]
      · have h' : ¬ c u = c y := fun e => h e.symm
        simp [h, h']
    rw [h1, h2]
    simp only [if_true]
    ring
  have hnb : nm B c u b = ∑ y ∈ univ.erase u, (if c y = b then B u y else 0) := by
    unfold nm
    rw [split_at u (fun y => if c y = b then B u y else 0)]
    simp [Ne.symm hb]
  have hna : nm B c u (c u) = B u u + ∑ y ∈ univ.erase u, (if c y = c u then B u y else 0) := by
    unfold nm
    rw [split_at u (fun y => if c y = c u then B u y else 0)]
    simp
  unfold Qraw
  rw [← Finset.sum_sub_distrib]
  rw [split_at u]
  have hrest : ∑ x ∈ univ.erase u, ((∑ y, if c' x = c' y then B x y else 0)
                                      - ∑ y, if c x = c y then B x y else 0)
      = ∑ x ∈ univ.erase u, ((if c x = b then B x u else 0) - (if c x = c u then B x u else 0)) := by
    apply Finset.sum_congr rfl
    intro x hx
    have hx' : x ≠ u := (Finset.mem_erase.mp hx).1
    rw [hrow x hx']
  have hnbT : nm (fun x y => B y x) c u b = ∑ y ∈ univ.erase u, (if c y = b then B y u else 0) := by
    unfold nm
    rw [split_at u (fun y => if c y = b then B y u else 0)]
    simp [Ne.symm hb]
  have hnaT : nm (fun x y => B y x) c u (c u)
      = B u u + ∑ y ∈ univ.erase u, (if c y = c u then B y u else 0) := by
    unfold nm
    rw [split_at u (fun y => if c y = c u then B y u else 0)]
    simp
  rw [hu, hrest, hnb, hna, hnbT, hnaT, Finset.sum_sub_distrib, Finset.sum_sub_distrib]
  ring

/-- symmetric kernel: the classical factor 2 -/
theorem Qraw_move_symm (B : ι → ι → ℝ) (hB : ∀ x y, B x y = B y x) (c : ι → μ) (u : ι) (b : μ)
    (hb : b ≠ c u) :
    Qraw B (Function.update c u b) - Qraw B c = 2 * (nm B c u b - nm B c u (c u) + B u u) := by
  have hT : (fun x y => B y x) = B := by funext x y; exact (hB x y).symm
  rw [Qraw_move B c u b hb, hT]; ring

/-- modularity kernel: node-to-module sums split into weight part and degree part -/
theorem nm_modularity (W : ι → ι → ℝ) (ko ki : ι → ℝ) (γ s : ℝ) (c : ι → μ) (u : ι) (m : μ) :
    nm (fun x y => W x y - γ * ko x * ki y / s) c u m
      = nm W c u m - γ * ko u * (∑ y, if c y = m then ki y else 0) / s := by
  unfold nm
  rw [Finset.mul_sum, Finset.sum_div, ← Finset.sum_sub_distrib]
  apply Finset.sum_congr rfl
  intro y _
  by_cases h : c y = m <;> simp [h]

end gain

section aggregate
open BigOperators Finset
variable {ι : Type} [Fintype ι] [DecidableEq ι] {μ : Type} [Fintype μ] [DecidableEq μ]

/-- aggregated module-by-module weight matrix: w a b = Σ_{x∈a, y∈b} W x y -/
noncomputable def agg (W : ι → ι → ℝ) (c : ι → μ) (a b : μ) : ℝ :=
  ∑ x, ∑ y, if c x = a ∧ c y = b then W x y else 0

/-- indicator collapse -/
lemma sum_ind_eq (c : ι → μ) (x y : ι) (f : ℝ) :
    (∑ a : μ, if c x = a ∧ c y = a then f else 0) = if c x = c y then f else 0 := by
  by_cases h : c x = c y
  · simp only [h, and_self, if_true]
    rw [Finset.sum_eq_single (c y)]
    · simp
    · intro b _ hb; simp [Ne.symm hb]
    · intro hn; exact absurd (mem_univ _) hn
  · simp only [h, if_false]
    apply Finset.sum_eq_zero
    intro a _
    have : ¬ (c x = a ∧ c y = a) := fun ⟨h1, h2⟩ => h (h1.trans h2.symm)
    simp [this]

/-- trace of the aggregate = within-module weight -/
theorem trace_agg (W : ι → ι → ℝ) (c : ι → μ) :
    (∑ a, agg W c a a) = ∑ x, ∑ y, if c x = c y then W x y else 0 := by
  unfold agg
  rw [Finset.sum_comm]
  apply Finset.sum_congr rfl; intro x _
  rw [Finset.sum_comm]
  apply Finset.sum_congr rfl; intro y _
  exact sum_ind_eq c x y (W x y)

/-- column sums of the aggregate are module in-degrees -/
theorem colsum_agg (W : ι → ι → ℝ) (c : ι → μ) (t : μ) :
    (∑ a, agg W c a t) = ∑ y, if c y = t then (∑ x, W x y) else 0 := by
  unfold agg
  rw [Finset.sum_comm]            -- Σ_x Σ_a Σ_y
  have : ∀ x, (∑ a, ∑ y, if c x = a ∧ c y = t then W x y else 0)
            = ∑ y, if c y = t then W x y else 0 := by
    intro x
    rw [Finset.sum_comm]
    apply Finset.sum_congr rfl; intro y _
    by_cases h : c y = t
    · simp only [h, and_true, if_true]
      rw [Finset.sum_eq_single (c x)]
      · simp
      · intro b _ hb; simp [Ne.symm hb]
      · intro hn; exact absurd (mem_univ _) hn
    · simp [h]
  simp_rw [this]
  rw [Finset.sum_comm]
  apply Finset.sum_congr rfl; intro y _
  by_cases h : c y = t <;> simp [h]

/-- row sums of the aggregate are module out-degrees -/
theorem rowsum_agg (W : ι → ι → ℝ) (c : ι → μ) (t : μ) :
    (∑ b, agg W c t b) = ∑ x, if c x = t then (∑ y, W x y) else 0 := by
  unfold agg
  rw [Finset.sum_comm]            -- Σ_x Σ_b Σ_y
  apply Finset.sum_congr rfl; intro x _
  rw [Finset.sum_comm]            -- Σ_y Σ_b
  by_cases h : c x = t
  · simp only [h, true_and, if_true]
    apply Finset.sum_congr rfl; intro y _
    rw [Finset.sum_eq_single (c y)]
    · simp
    · intro b _ hb; simp [Ne.symm hb]
    · intro hn; exact absurd (mem_univ _) hn
  · simp [h]

/-- Σ of all entries of (w·w) factorises through the middle index -/
theorem sum_sq_agg (w : μ → μ → ℝ) :
    (∑ a, ∑ b, ∑ t, w a t * w t b) = ∑ t, (∑ a, w a t) * (∑ b, w t b) := by
  calc (∑ a, ∑ b, ∑ t, w a t * w t b)
      = ∑ a, ∑ t, ∑ b, w a t * w t b := by
        apply Finset.sum_congr rfl; intro a _; exact Finset.sum_comm
    _ = ∑ t, ∑ a, ∑ b, w a t * w t b := Finset.sum_comm
    _ = ∑ t, (∑ a, w a t) * (∑ b, w t b) := by
        apply Finset.sum_congr rfl; intro t _; rw [Finset.sum_mul_sum]

/-- degree part of modularity grouped by module -/
theorem deg_part (c : ι → μ) (ko ki : ι → ℝ) :
    (∑ x, ∑ y, if c x = c y then ko x * ki y else 0)
      = ∑ t, (∑ x, if c x = t then ko x else 0) * (∑ y, if c y = t then ki y else 0) := by
  symm
  calc (∑ t, (∑ x, if c x = t then ko x else 0) * (∑ y, if c y = t then ki y else 0))
      = ∑ t, ∑ x, ∑ y, (if c x = t then ko x else 0) * (if c y = t then ki y else 0) := by
        apply Finset.sum_congr rfl; intro t _; rw [Finset.sum_mul_sum]
    _ = ∑ x, ∑ t, ∑ y, (if c x = t then ko x else 0) * (if c y = t then ki y else 0) := Finset.sum_comm
    _ = ∑ x, ∑ y, ∑ t, (if c x = t then ko x else 0) * (if c y = t then ki y else 0) := by
        apply Finset.sum_congr rfl; intro x _; exact Finset.sum_comm
    _ = ∑ x, ∑ y, if c x = c y then ko x * ki y else 0 := by
        apply Finset.sum_congr rfl; intro x _
        apply Finset.sum_congr rfl; intro y _
        rw [← sum_ind_eq c x y (ko x * ki y)]
        apply Finset.sum_congr rfl; intro t _
        by_cases h1 : c x = t <;> by_cases h2 : c y = t <;> simp [h1, h2]

/-- C02: the quality computed from the aggregated matrix is the modularity of the labels.
    numpy: q = trace(w)/s - gamma * sum(dot(w/s, w/s)),  w[a,b] = sum(W[ix_(ci==a, ci==b)]) -/
theorem q_from_aggregate (W : ι → ι → ℝ) (c : ι → μ) (γ s : ℝ) (hs : s ≠ 0) :
    (∑ a, agg W c a a) / s - γ * (∑ a, ∑ b, ∑ t, (agg W c a t / s) * (agg W c t b / s))
      = (1 / s) * ∑ x, ∑ y, if c x = c y
            then (W x y - γ * (∑ y', W x y') * (∑ x', W x' y) / s) else 0 := by
  have hsq : (∑ a, ∑ b, ∑ t, (agg W c a t / s) * (agg W c t b / s))
      = (∑ t, (∑ a, agg W c a t) * (∑ b, agg W c t b)) / (s * s) := by
    rw [← sum_sq_agg (agg W c), Finset.sum_div]
    apply Finset.sum_congr rfl; intro a _
    rw [Finset.sum_div]
    apply Finset.sum_congr rfl; intro b _
    rw [Finset.sum_div]
    apply Finset.sum_congr rfl; intro t _
    field_simp
  have hpt : ∀ x y, (if c x = c y then (W x y - γ * (∑ y', W x y') * (∑ x', W x' y) / s) else 0)
       = (if c x = c y then W x y else 0)
         - γ / s * (if c x = c y then (∑ y', W x y') * (∑ x', W x' y) else 0) := by
    intro x y
    by_cases h : c x = c y
    · simp only [h, if_true]; ring
    · simp [h]
  have hsplit : (∑ x, ∑ y, if c x = c y
            then (W x y - γ * (∑ y', W x y') * (∑ x', W x' y) / s) else 0)
      = (∑ x, ∑ y, if c x = c y then W x y else 0)
        - γ / s * (∑ x, ∑ y, if c x = c y then (∑ y', W x y') * (∑ x', W x' y) else 0) := by
    calc (∑ x, ∑ y, if c x = c y then (W x y - γ * (∑ y', W x y') * (∑ x', W x' y) / s) else 0)
        = ∑ x, ∑ y, ((if c x = c y then W x y else 0)
             - γ / s * (if c x = c y then (∑ y', W x y') * (∑ x', W x' y) else 0)) := by
          apply Finset.sum_congr rfl; intro x _
          apply Finset.sum_congr rfl; intro y _
          exact hpt x y
      _ = (∑ x, ∑ y, if c x = c y then W x y else 0)
          - γ / s * (∑ x, ∑ y, if c x = c y then (∑ y', W x y') * (∑ x', W x' y) else 0) := by
          simp only [Finset.sum_sub_distrib, Finset.mul_sum]
  rw [hsq, hsplit, trace_agg, deg_part c (fun x => ∑ y', W x y') (fun y => ∑ x', W x' y)]
  simp_rw [colsum_agg, rowsum_agg]
  have : (∑ t : μ, (∑ y, if c y = t then (∑ x, W x y) else 0) * (∑ x, if c x = t then (∑ y, W x y) else 0))
       = ∑ t : μ, (∑ x, if c x = t then (∑ y, W x y) else 0) * (∑ y, if c y = t then (∑ x, W x y) else 0) := by
    apply Finset.sum_congr rfl; intro t _; ring
  rw [this]
  field_simp

end aggregate

/-! ## Row / column statistics (spec functions `cnt1 pos1 neg1 sum1 sumF1 sumFp1 sumFn1 dot1`, `ccnt cpos cneg csum`,
`totF totFp totFn dot2` of engine/pyvc/core.py).  The SMT functions take integer-indexed arrays and a bound `n` and only
look at indices `0 ≤ i < n`; here the index type is an arbitrary finite type `ι` (think `Fin n`). -/
section stats
open BigOperators Finset
variable {ι : Type} [Fintype ι] [DecidableEq ι]

/-- number of entries of the row satisfying `p` (generic form of `cnt`, `pos`, `neg`) -/
noncomputable def cntP (p : ℝ → Prop) [DecidablePred p] (r : ι → ℝ) : ℕ := (univ.filter (fun y => p (r y))).card

/-- `cnt1(r, n)` = #{y : r y ≠ 0} -/
noncomputable def cnt (r : ι → ℝ) : ℕ := (Finset.univ.filter (fun y => r y ≠ 0)).card
/-- `pos1(r, n)` = #{y : r y > 0} -/
noncomputable def pos (r : ι → ℝ) : ℕ := (Finset.univ.filter (fun y => 0 < r y)).card
/-- `neg1(r, n)` = #{y : r y < 0} -/
noncomputable def neg (r : ι → ℝ) : ℕ := (Finset.univ.filter (fun y => r y < 0)).card
/-- `sum1(r, n)` -/
noncomputable def sum1 (r : ι → ℝ) : ℝ := ∑ y, r y
/-- `sumF1(r, n)` for the (arbitrary) weight statistic `F` -/
noncomputable def sumF1 (F : ℝ → ℝ) (r : ι → ℝ) : ℝ := ∑ y, F (r y)
/-- `sumFp1(r, n)`: sum of `F` over the positive entries -/
noncomputable def sumFp1 (F : ℝ → ℝ) (r : ι → ℝ) : ℝ := ∑ y, if 0 < r y then F (r y) else 0
/-- `sumFn1(r, n)`: sum of `F` over the negative entries -/
noncomputable def sumFn1 (F : ℝ → ℝ) (r : ι → ℝ) : ℝ := ∑ y, if r y < 0 then F (r y) else 0
/-- `dot1(d, r, n)` -/
noncomputable def dot1 (d r : ι → ℝ) : ℝ := ∑ y, d y * r y

lemma cnt_eq_cntP (r : ι → ℝ) : cnt r = cntP (fun t => t ≠ 0) r := rfl
lemma pos_eq_cntP (r : ι → ℝ) : pos r = cntP (fun t => 0 < t) r := rfl
lemma neg_eq_cntP (r : ι → ℝ) : neg r = cntP (fun t => t < 0) r := rfl

/-- a count is the sum of its indicator (over ℕ) -/
lemma cntP_eq_sum (p : ℝ → Prop) [DecidablePred p] (r : ι → ℝ) :
    cntP p r = ∑ y, if p (r y) then 1 else 0 := by
  unfold cntP; rw [Finset.card_filter]

/-- a count is the sum of its indicator (over ℤ) -/
lemma cntP_cast (p : ℝ → Prop) [DecidablePred p] (r : ι → ℝ) :
    (cntP p r : ℤ) = ∑ y, if p (r y) then (1 : ℤ) else 0 := by
  rw [cntP_eq_sum]; push_cast; rfl

/-- generic single-point update of a finite sum: Σ_z g z (r[y:=v] z) = Σ_z g z (r z) + g y v − g y (r y) -/
lemma gsum_update {α β : Type*} [AddCommGroup α] (g : ι → β → α) (r : ι → β) (y : ι) (v : β) :
    ∑ z, g z (Function.update r y v z) = ∑ z, g z (r z) + g y v - g y (r y) := by
  rw [← Finset.add_sum_erase univ (fun z => g z (Function.update r y v z)) (mem_univ y),
      ← Finset.add_sum_erase univ (fun z => g z (r z)) (mem_univ y)]
  have : ∑ z ∈ univ.erase y, g z (Function.update r y v z) = ∑ z ∈ univ.erase y, g z (r z) := by
    apply Finset.sum_congr rfl
    intro z hz
    rw [Function.update_of_ne (Finset.mem_erase.mp hz).1]
  rw [this]; simp only [Function.update_self]; abel

/-! ### 1. single-entry update of a row: `Store(r, y, v)` -/

theorem cntP_update (p : ℝ → Prop) [DecidablePred p] (r : ι → ℝ) (y : ι) (v : ℝ) :
    (cntP p (Function.update r y v) : ℤ)
      = cntP p r + (if p v then 1 else 0) - (if p (r y) then 1 else 0) := by
  rw [cntP_cast, cntP_cast]
  exact gsum_update (fun _ t => if p t then (1 : ℤ) else 0) r y v

/-- SMT axiom `cnt1(Store(r,y,v), n) == cnt1(r, n) + b2i(v != 0) - b2i(r[y] != 0)` -/
theorem cnt_update (r : ι → ℝ) (y : ι) (v : ℝ) :
    (cnt (Function.update r y v) : ℤ) = cnt r + (if v ≠ 0 then 1 else 0) - (if r y ≠ 0 then 1 else 0) :=
  cntP_update (fun t => t ≠ 0) r y v

/-- SMT axiom `pos1(Store(r,y,v), n) == pos1(r, n) + b2i(v > 0) - b2i(r[y] > 0)` -/
theorem pos_update (r : ι → ℝ) (y : ι) (v : ℝ) :
    (pos (Function.update r y v) : ℤ) = pos r + (if 0 < v then 1 else 0) - (if 0 < r y then 1 else 0) :=
  cntP_update (fun t => 0 < t) r y v

/-- SMT axiom `neg1(Store(r,y,v), n) == neg1(r, n) + b2i(v < 0) - b2i(r[y] < 0)` -/
theorem neg_update (r : ι → ℝ) (y : ι) (v : ℝ) :
    (neg (Function.update r y v) : ℤ) = neg r + (if v < 0 then 1 else 0) - (if r y < 0 then 1 else 0) :=
  cntP_update (fun t => t < 0) r y v

/-- the same three facts over ℕ, without subtraction -/
theorem cntP_update_nat (p : ℝ → Prop) [DecidablePred p] (r : ι → ℝ) (y : ι) (v : ℝ) :
    cntP p (Function.update r y v) + (if p (r y) then 1 else 0) = cntP p r + (if p v then 1 else 0) := by
  have h := cntP_update p r y v
  have : ((cntP p (Function.update r y v) + (if p (r y) then 1 else 0) : ℕ) : ℤ)
       = ((cntP p r + (if p v then 1 else 0) : ℕ) : ℤ) := by
    push_cast; rw [h]; ring
  exact_mod_cast this

/-- SMT axiom `sum1(Store(r,y,v), n) == sum1(r, n) + v - r[y]` -/
theorem sum1_update (r : ι → ℝ) (y : ι) (v : ℝ) :
    sum1 (Function.update r y v) = sum1 r + v - r y :=
  gsum_update (fun _ t => t) r y v

/-- SMT axiom `sumF1(Store(r,y,v), n) == sumF1(r, n) + F(v) - F(r[y])` (any `F`) -/
theorem sumF1_update (F : ℝ → ℝ) (r : ι → ℝ) (y : ι) (v : ℝ) :
    sumF1 F (Function.update r y v) = sumF1 F r + F v - F (r y) :=
  gsum_update (fun _ t => F t) r y v

/-- SMT axiom `sumFp1(Store(r,y,v), n) == sumFp1(r, n) + If(v > 0, F(v), 0) - If(r[y] > 0, F(r[y]), 0)` -/
theorem sumFp1_update (F : ℝ → ℝ) (r : ι → ℝ) (y : ι) (v : ℝ) :
    sumFp1 F (Function.update r y v)
      = sumFp1 F r + (if 0 < v then F v else 0) - (if 0 < r y then F (r y) else 0) :=
  gsum_update (fun _ t => if 0 < t then F t else 0) r y v

/-- SMT axiom `sumFn1(Store(r,y,v), n) == sumFn1(r, n) + If(v < 0, F(v), 0) - If(r[y] < 0, F(r[y]), 0)` -/
theorem sumFn1_update (F : ℝ → ℝ) (r : ι → ℝ) (y : ι) (v : ℝ) :
    sumFn1 F (Function.update r y v)
      = sumFn1 F r + (if v < 0 then F v else 0) - (if r y < 0 then F (r y) else 0) :=
  gsum_update (fun _ t => if t < 0 then F t else 0) r y v

/-- SMT axiom `dot1(d, Store(r,y,v), n) == dot1(d, r, n) + d[y] * (v - r[y])` -/
theorem dot1_update (d r : ι → ℝ) (y : ι) (v : ℝ) :
    dot1 d (Function.update r y v) = dot1 d r + d y * (v - r y) := by
  have h := gsum_update (fun z t => d z * t) r y v
  unfold dot1; rw [h]; ring

/-! ### 2. replacing one row of a matrix: `Store(M, x, r)` -/

/-- `ccnt(M, y, n)` = #{x : M x y ≠ 0} -/
noncomputable def ccnt (M : ι → ι → ℝ) (y : ι) : ℕ := (Finset.univ.filter (fun x => M x y ≠ 0)).card
/-- `cpos(M, y, n)` -/
noncomputable def cpos (M : ι → ι → ℝ) (y : ι) : ℕ := (Finset.univ.filter (fun x => 0 < M x y)).card
/-- `cneg(M, y, n)` -/
noncomputable def cneg (M : ι → ι → ℝ) (y : ι) : ℕ := (Finset.univ.filter (fun x => M x y < 0)).card
/-- `csum(M, y, n)` -/
noncomputable def csum (M : ι → ι → ℝ) (y : ι) : ℝ := ∑ x, M x y
/-- `totF(M, n)` -/
noncomputable def totF (F : ℝ → ℝ) (M : ι → ι → ℝ) : ℝ := ∑ x, ∑ y, F (M x y)
/-- `totFp(M, n)` -/
noncomputable def totFp (F : ℝ → ℝ) (M : ι → ι → ℝ) : ℝ := ∑ x, ∑ y, if 0 < M x y then F (M x y) else 0
/-- `totFn(M, n)` -/
noncomputable def totFn (F : ℝ → ℝ) (M : ι → ι → ℝ) : ℝ := ∑ x, ∑ y, if M x y < 0 then F (M x y) else 0
/-- `dot2(D, M, n)` -/
noncomputable def dot2 (D M : ι → ι → ℝ) : ℝ := ∑ x, ∑ y, D x y * M x y

lemma ccnt_eq_cntP (M : ι → ι → ℝ) (y : ι) : ccnt M y = cntP (fun t => t ≠ 0) (fun x => M x y) := rfl
lemma cpos_eq_cntP (M : ι → ι → ℝ) (y : ι) : cpos M y = cntP (fun t => 0 < t) (fun x => M x y) := rfl
lemma cneg_eq_cntP (M : ι → ι → ℝ) (y : ι) : cneg M y = cntP (fun t => t < 0) (fun x => M x y) := rfl
lemma csum_eq_sum1 (M : ι → ι → ℝ) (y : ι) : csum M y = sum1 (fun x => M x y) := rfl
lemma totF_eq (F : ℝ → ℝ) (M : ι → ι → ℝ) : totF F M = ∑ x, sumF1 F (M x) := rfl
lemma totFp_eq (F : ℝ → ℝ) (M : ι → ι → ℝ) : totFp F M = ∑ x, sumFp1 F (M x) := rfl
lemma totFn_eq (F : ℝ → ℝ) (M : ι → ι → ℝ) : totFn F M = ∑ x, sumFn1 F (M x) := rfl
lemma dot2_eq (D M : ι → ι → ℝ) : dot2 D M = ∑ x, dot1 (D x) (M x) := rfl

/-- column `y` of `M[x := r]` is column `y` of `M` with entry `x` set to `r y` -/
lemma col_update_row {β : Type*} (M : ι → ι → β) (x : ι) (r : ι → β) (y : ι) :
    (fun x' => Function.update M x r x' y) = Function.update (fun x' => M x' y) x (r y) := by
  funext x'
  by_cases h : x' = x
  · subst h; simp
  · simp [Function.update_of_ne h]

theorem ccntP_update_row (p : ℝ → Prop) [DecidablePred p] (M : ι → ι → ℝ) (x : ι) (r : ι → ℝ) (y : ι) :
    (cntP p (fun x' => Function.update M x r x' y) : ℤ)
      = cntP p (fun x' => M x' y) + (if p (r y) then 1 else 0) - (if p (M x y) then 1 else 0) := by
  rw [col_update_row]; exact cntP_update p (fun x' => M x' y) x (r y)

/-- SMT axiom `ccnt(Store(M,x,r), yy, n) == ccnt(M, yy, n) + b2i(r[yy] != 0) - b2i(M[x][yy] != 0)` -/
theorem ccnt_update_row (M : ι → ι → ℝ) (x : ι) (r : ι → ℝ) (y : ι) :
    (ccnt (Function.update M x r) y : ℤ)
      = ccnt M y + (if r y ≠ 0 then 1 else 0) - (if M x y ≠ 0 then 1 else 0) :=
  ccntP_update_row (fun t => t ≠ 0) M x r y

/-- SMT axiom `cpos(Store(M,x,r), yy, n) == cpos(M, yy, n) + b2i(r[yy] > 0) - b2i(M[x][yy] > 0)` -/
theorem cpos_update_row (M : ι → ι → ℝ) (x : ι) (r : ι → ℝ) (y : ι) :
    (cpos (Function.update M x r) y : ℤ)
      = cpos M y + (if 0 < r y then 1 else 0) - (if 0 < M x y then 1 else 0) :=
  ccntP_update_row (fun t => 0 < t) M x r y

/-- SMT axiom `cneg(Store(M,x,r), yy, n) == cneg(M, yy, n) + b2i(r[yy] < 0) - b2i(M[x][yy] < 0)` -/
theorem cneg_update_row (M : ι → ι → ℝ) (x : ι) (r : ι → ℝ) (y : ι) :
    (cneg (Function.update M x r) y : ℤ)
      = cneg M y + (if r y < 0 then 1 else 0) - (if M x y < 0 then 1 else 0) :=
  ccntP_update_row (fun t => t < 0) M x r y

/-- SMT axiom `csum(Store(M,x,r), yy, n) == csum(M, yy, n) + r[yy] - M[x][yy]` -/
theorem csum_update_row (M : ι → ι → ℝ) (x : ι) (r : ι → ℝ) (y : ι) :
    csum (Function.update M x r) y = csum M y + r y - M x y := by
  rw [csum_eq_sum1, col_update_row]; exact sum1_update (fun x' => M x' y) x (r y)

/-- SMT axiom `totF(Store(M,x,r), n) == totF(M, n) + sumF1(r, n) - sumF1(M[x], n)` -/
theorem totF_update_row (F : ℝ → ℝ) (M : ι → ι → ℝ) (x : ι) (r : ι → ℝ) :
    totF F (Function.update M x r) = totF F M + sumF1 F r - sumF1 F (M x) := by
  rw [totF_eq, totF_eq]; exact gsum_update (fun _ row => sumF1 F row) M x r

/-- SMT axiom `totFp(Store(M,x,r), n) == totFp(M, n) + sumFp1(r, n) - sumFp1(M[x], n)` -/
theorem totFp_update_row (F : ℝ → ℝ) (M : ι → ι → ℝ) (x : ι) (r : ι → ℝ) :
    totFp F (Function.update M x r) = totFp F M + sumFp1 F r - sumFp1 F (M x) := by
  rw [totFp_eq, totFp_eq]; exact gsum_update (fun _ row => sumFp1 F row) M x r

/-- SMT axiom `totFn(Store(M,x,r), n) == totFn(M, n) + sumFn1(r, n) - sumFn1(M[x], n)` -/
theorem totFn_update_row (F : ℝ → ℝ) (M : ι → ι → ℝ) (x : ι) (r : ι → ℝ) :
    totFn F (Function.update M x r) = totFn F M + sumFn1 F r - sumFn1 F (M x) := by
  rw [totFn_eq, totFn_eq]; exact gsum_update (fun _ row => sumFn1 F row) M x r

/-- SMT axiom `dot2(D, Store(M,x,r), n) == dot2(D, M, n) + dot1(D[x], r, n) - dot1(D[x], M[x], n)` -/
theorem dot2_update_row (D M : ι → ι → ℝ) (x : ι) (r : ι → ℝ) :
    dot2 D (Function.update M x r) = dot2 D M + dot1 (D x) r - dot1 (D x) (M x) := by
  rw [dot2_eq, dot2_eq]; exact gsum_update (fun z row => dot1 (D z) row) M x r

/-- `store2(M, x, y, v)`: single-cell update = row replacement by the updated row (used with the two groups above) -/
theorem store2_eq (M : ι → ι → ℝ) (x y : ι) (v : ℝ) (x' y' : ι) :
    Function.update M x (Function.update (M x) y v) x' y' = if x' = x ∧ y' = y then v else M x' y' := by
  by_cases hx : x' = x
  · subst hx
    by_cases hy : y' = y
    · subst hy; simp
    · simp [hy]
  · simp [hx]

/-! ### 3. permutation re-indexing: `P = ixperm(M, p) = M[np.ix_(p, p)]` with `isperm(p, n)` -/

/-- `ixperm(M, p)`: SMT axiom `ixperm(M,p)[x][y] == M[p[x]][p[y]]` is this definition -/
def ixperm (M : ι → ι → ℝ) (σ : Equiv.Perm ι) : ι → ι → ℝ := fun x y => M (σ x) (σ y)

/-- generic: a sum over a row of `P` is the sum over row `σ x` of `M` (any codomain, covers counts and sums) -/
lemma gsum_perm_row {α : Type*} [AddCommMonoid α] (G : ℝ → α) (M : ι → ι → ℝ) (σ : Equiv.Perm ι) (x : ι) :
    ∑ y, G (ixperm M σ x y) = ∑ y, G (M (σ x) y) :=
  Equiv.sum_comp σ (fun y => G (M (σ x) y))

lemma gsum_perm_col {α : Type*} [AddCommMonoid α] (G : ℝ → α) (M : ι → ι → ℝ) (σ : Equiv.Perm ι) (x : ι) :
    ∑ x', G (ixperm M σ x' x) = ∑ x', G (M x' (σ x)) :=
  Equiv.sum_comp σ (fun x' => G (M x' (σ x)))

lemma gsum_perm_tot {α : Type*} [AddCommMonoid α] (G : ℝ → α) (M : ι → ι → ℝ) (σ : Equiv.Perm ι) :
    ∑ x, ∑ y, G (ixperm M σ x y) = ∑ x, ∑ y, G (M x y) := by
  rw [← Equiv.sum_comp σ (fun x => ∑ y, G (M x y))]
  apply Finset.sum_congr rfl; intro x _
  exact gsum_perm_row G M σ x

theorem cntP_perm_row (p : ℝ → Prop) [DecidablePred p] (M : ι → ι → ℝ) (σ : Equiv.Perm ι) (x : ι) :
    cntP p (ixperm M σ x) = cntP p (M (σ x)) := by
  rw [cntP_eq_sum, cntP_eq_sum]; exact gsum_perm_row (fun t => if p t then 1 else 0) M σ x

/-- SMT axiom `isperm(p,n) ∧ 0≤x<n → cnt1(P[x], n) == cnt1(M[p[x]], n)` -/
theorem cnt_perm_row (M : ι → ι → ℝ) (σ : Equiv.Perm ι) (x : ι) : cnt (ixperm M σ x) = cnt (M (σ x)) :=
  cntP_perm_row (fun t => t ≠ 0) M σ x
/-- SMT axiom `… → pos1(P[x], n) == pos1(M[p[x]], n)` -/
theorem pos_perm_row (M : ι → ι → ℝ) (σ : Equiv.Perm ι) (x : ι) : pos (ixperm M σ x) = pos (M (σ x)) :=
  cntP_perm_row (fun t => 0 < t) M σ x
/-- SMT axiom `… → neg1(P[x], n) == neg1(M[p[x]], n)` -/
theorem neg_perm_row (M : ι → ι → ℝ) (σ : Equiv.Perm ι) (x : ι) : neg (ixperm M σ x) = neg (M (σ x)) :=
  cntP_perm_row (fun t => t < 0) M σ x
/-- SMT axiom `… → sum1(P[x], n) == sum1(M[p[x]], n)` -/
theorem sum1_perm_row (M : ι → ι → ℝ) (σ : Equiv.Perm ι) (x : ι) : sum1 (ixperm M σ x) = sum1 (M (σ x)) :=
  gsum_perm_row (fun t => t) M σ x
/-- SMT axiom `… → sumF1(P[x], n) == sumF1(M[p[x]], n)` -/
theorem sumF1_perm_row (F : ℝ → ℝ) (M : ι → ι → ℝ) (σ : Equiv.Perm ι) (x : ι) :
    sumF1 F (ixperm M σ x) = sumF1 F (M (σ x)) :=
  gsum_perm_row F M σ x
/-- SMT axiom `… → sumFp1(P[x], n) == sumFp1(M[p[x]], n)` -/
theorem sumFp1_perm_row (F : ℝ → ℝ) (M : ι → ι → ℝ) (σ : Equiv.Perm ι) (x : ι) :
    sumFp1 F (ixperm M σ x) = sumFp1 F (M (σ x)) :=
  gsum_perm_row (fun t => if 0 < t then F t else 0) M σ x
/-- SMT axiom `… → sumFn1(P[x], n) == sumFn1(M[p[x]], n)` -/
theorem sumFn1_perm_row (F : ℝ → ℝ) (M : ι → ι → ℝ) (σ : Equiv.Perm ι) (x : ι) :
    sumFn1 F (ixperm M σ x) = sumFn1 F (M (σ x)) :=
  gsum_perm_row (fun t => if t < 0 then F t else 0) M σ x

theorem ccntP_perm (p : ℝ → Prop) [DecidablePred p] (M : ι → ι → ℝ) (σ : Equiv.Perm ι) (x : ι) :
    cntP p (fun x' => ixperm M σ x' x) = cntP p (fun x' => M x' (σ x)) := by
  rw [cntP_eq_sum, cntP_eq_sum]; exact gsum_perm_col (fun t => if p t then 1 else 0) M σ x

/-- SMT axiom `isperm(p,n) ∧ 0≤x<n → ccnt(P, x, n) == ccnt(M, p[x], n)` -/
theorem ccnt_perm (M : ι → ι → ℝ) (σ : Equiv.Perm ι) (x : ι) : ccnt (ixperm M σ) x = ccnt M (σ x) :=
  ccntP_perm (fun t => t ≠ 0) M σ x
/-- SMT axiom `… → cpos(P, x, n) == cpos(M, p[x], n)` -/
theorem cpos_perm (M : ι → ι → ℝ) (σ : Equiv.Perm ι) (x : ι) : cpos (ixperm M σ) x = cpos M (σ x) :=
  ccntP_perm (fun t => 0 < t) M σ x
/-- SMT axiom `… → cneg(P, x, n) == cneg(M, p[x], n)` -/
theorem cneg_perm (M : ι → ι → ℝ) (σ : Equiv.Perm ι) (x : ι) : cneg (ixperm M σ) x = cneg M (σ x) :=
  ccntP_perm (fun t => t < 0) M σ x
/-- SMT axiom `… → csum(P, x, n) == csum(M, p[x], n)` -/
theorem csum_perm (M : ι → ι → ℝ) (σ : Equiv.Perm ι) (x : ι) : csum (ixperm M σ) x = csum M (σ x) :=
  gsum_perm_col (fun t => t) M σ x

/-- SMT axiom `isperm(p,n) → totF(P, n) == totF(M, n)` -/
theorem totF_perm (F : ℝ → ℝ) (M : ι → ι → ℝ) (σ : Equiv.Perm ι) : totF F (ixperm M σ) = totF F M :=
  gsum_perm_tot F M σ
/-- SMT axiom `isperm(p,n) → totFp(P, n) == totFp(M, n)` -/
theorem totFp_perm (F : ℝ → ℝ) (M : ι → ι → ℝ) (σ : Equiv.Perm ι) : totFp F (ixperm M σ) = totFp F M :=
  gsum_perm_tot (fun t => if 0 < t then F t else 0) M σ
/-- SMT axiom `isperm(p,n) → totFn(P, n) == totFn(M, n)` -/
theorem totFn_perm (F : ℝ → ℝ) (M : ι → ι → ℝ) (σ : Equiv.Perm ι) : totFn F (ixperm M σ) = totFn F M :=
  gsum_perm_tot (fun t => if t < 0 then F t else 0) M σ

/-! ### 4. masked degree (`lemma_masked_degree`) -/

/-- `dset(M, P, v, n)` = #{u : P u ∧ M u v ≠ 0} -/
noncomputable def dset (M : ι → ι → ℝ) (A : ι → Prop) [DecidablePred A] (v : ι) : ℕ :=
  (univ.filter (fun u => A u ∧ M u v ≠ 0)).card
/-- `rset(M, P, v, n)` = #{u : P u ∧ M v u ≠ 0} -/
noncomputable def rset (M : ι → ι → ℝ) (A : ι → Prop) [DecidablePred A] (v : ι) : ℕ :=
  (univ.filter (fun u => A u ∧ M v u ≠ 0)).card
/-- `wset(M, P, v, n)` = Σ_{u, P u} M u v -/
noncomputable def wset (M : ι → ι → ℝ) (A : ι → Prop) [DecidablePred A] (v : ι) : ℝ :=
  ∑ u, if A u then M u v else 0

/-- `lemma_masked_degree`, conjunct `ccnt(C, v, n) == If(A[v], dset(M, A, v, n), 0)` -/
theorem masked_ccnt (M C : ι → ι → ℝ) (A : ι → Prop) [DecidablePred A]
    (hC : ∀ x y, C x y = if A x ∧ A y then M x y else 0) (v : ι) :
    ccnt C v = if A v then dset M A v else 0 := by
  by_cases hv : A v
  · rw [if_pos hv]; unfold ccnt dset
    congr 1; apply Finset.filter_congr; intro u _; rw [hC]; simp [hv]
  · rw [if_neg hv]; unfold ccnt
    rw [Finset.card_eq_zero, Finset.filter_eq_empty_iff]; intro u _; simp [hC, hv]

/-- `lemma_masked_degree`, conjunct `cnt1(C[v], n) == If(A[v], rset(M, A, v, n), 0)` -/
theorem masked_rcnt (M C : ι → ι → ℝ) (A : ι → Prop) [DecidablePred A]
    (hC : ∀ x y, C x y = if A x ∧ A y then M x y else 0) (v : ι) :
    cnt (C v) = if A v then rset M A v else 0 := by
  by_cases hv : A v
  · rw [if_pos hv]; unfold cnt rset
    congr 1; apply Finset.filter_congr; intro u _; rw [hC]; simp [hv]
  · rw [if_neg hv]; unfold cnt
    rw [Finset.card_eq_zero, Finset.filter_eq_empty_iff]; intro u _; simp [hC, hv]

/-- `lemma_masked_degree`, conjunct `csum(C, v, n) == If(A[v], wset(M, A, v, n), 0)` -/
theorem masked_csum (M C : ι → ι → ℝ) (A : ι → Prop) [DecidablePred A]
    (hC : ∀ x y, C x y = if A x ∧ A y then M x y else 0) (v : ι) :
    csum C v = if A v then wset M A v else 0 := by
  by_cases hv : A v
  · rw [if_pos hv]; unfold csum wset
    apply Finset.sum_congr rfl; intro u _; rw [hC]; simp [hv]
  · rw [if_neg hv]; unfold csum
    apply Finset.sum_eq_zero; intro u _; simp [hC, hv]

/-! ### 5. monotonicity of restricted degrees (`lemma_degree_monotone`) -/

/-- `lemma_degree_monotone`, conjunct `dset(M, P, v, n) <= dset(M, Q, v, n)` -/
theorem dset_mono (M : ι → ι → ℝ) (P Q : ι → Prop) [DecidablePred P] [DecidablePred Q]
    (h : ∀ u, P u → Q u) (v : ι) : dset M P v ≤ dset M Q v := by
  unfold dset
  apply Finset.card_le_card
  intro u hu
  simp only [Finset.mem_filter, Finset.mem_univ, true_and] at hu ⊢
  exact ⟨h u hu.1, hu.2⟩

/-- `lemma_degree_monotone`, conjunct `rset(M, P, v, n) <= rset(M, Q, v, n)` -/
theorem rset_mono (M : ι → ι → ℝ) (P Q : ι → Prop) [DecidablePred P] [DecidablePred Q]
    (h : ∀ u, P u → Q u) (v : ι) : rset M P v ≤ rset M Q v := by
  unfold rset
  apply Finset.card_le_card
  intro u hu
  simp only [Finset.mem_filter, Finset.mem_univ, true_and] at hu ⊢
  exact ⟨h u hu.1, hu.2⟩

/-- `lemma_degree_monotone`, conjunct `nonneg → wset(M, P, v, n) <= wset(M, Q, v, n)` -/
theorem wset_mono (M : ι → ι → ℝ) (P Q : ι → Prop) [DecidablePred P] [DecidablePred Q]
    (h : ∀ u, P u → Q u) (hM : ∀ x y, 0 ≤ M x y) (v : ι) : wset M P v ≤ wset M Q v := by
  unfold wset
  apply Finset.sum_le_sum
  intro u _
  by_cases hp : P u
  · simp [hp, h u hp]
  · by_cases hq : Q u
    · simp [hp, hq, hM u v]
    · simp [hp, hq]

/-- `lemma_masked_degree(C, A, M, n)`: the three conjuncts together -/
theorem masked_degree (M C : ι → ι → ℝ) (A : ι → Prop) [DecidablePred A]
    (hC : ∀ x y, C x y = if A x ∧ A y then M x y else 0) (v : ι) :
    ccnt C v = (if A v then dset M A v else 0) ∧ cnt (C v) = (if A v then rset M A v else 0)
      ∧ csum C v = (if A v then wset M A v else 0) :=
  ⟨masked_ccnt M C A hC v, masked_rcnt M C A hC v, masked_csum M C A hC v⟩

/-- `lemma_degree_monotone(M, P, Q, n)`: the three conjuncts together -/
theorem restricted_degree_mono (M : ι → ι → ℝ) (P Q : ι → Prop) [DecidablePred P] [DecidablePred Q]
    (h : ∀ u, P u → Q u) (v : ι) :
    dset M P v ≤ dset M Q v ∧ rset M P v ≤ rset M Q v ∧ ((∀ x y, 0 ≤ M x y) → wset M P v ≤ wset M Q v) :=
  ⟨dset_mono M P Q h v, rset_mono M P Q h v, fun hM => wset_mono M P Q h hM v⟩

end stats

/-! ## Node-to-module sums, module degrees, modularity (spec functions `modsum modsumT degsum degsumT agg tsum Qmod`).
In the SMT encoding labels are integers and module `m` (0-based) collects the nodes with `ci[y] = m + 1`; here labels are
values of an arbitrary type `μ` with decidable equality, and `m : μ` is the label itself. -/
section modules
open BigOperators Finset
variable {ι : Type} [Fintype ι] [DecidableEq ι] {μ : Type} [DecidableEq μ]

/-- `modsum(W, ci, x, m, n)` = Σ_{y, c y = m} W x y -/
noncomputable def modsum (W : ι → ι → ℝ) (c : ι → μ) (x : ι) (m : μ) : ℝ := ∑ y, if c y = m then W x y else 0
/-- `modsumT(W, ci, x, m, n)` = Σ_{y, c y = m} W y x -/
noncomputable def modsumT (W : ι → ι → ℝ) (c : ι → μ) (x : ι) (m : μ) : ℝ := ∑ y, if c y = m then W y x else 0
/-- `degsum(W, ci, m, n)` = Σ_{x, c x = m} rowsum(W, x) -/
noncomputable def degsum (W : ι → ι → ℝ) (c : ι → μ) (m : μ) : ℝ := ∑ x, if c x = m then ∑ y, W x y else 0
/-- `degsumT(W, ci, m, n)` = Σ_{x, c x = m} colsum(W, x) -/
noncomputable def degsumT (W : ι → ι → ℝ) (c : ι → μ) (m : μ) : ℝ := ∑ x, if c x = m then ∑ y, W y x else 0
/-- `tsum(W, n)`: total weight -/
noncomputable def tot (W : ι → ι → ℝ) : ℝ := ∑ x, ∑ y, W x y
/-- `Qmod(W, ci, gamma, n)`: modularity (1/s) Σ_{x,y} (W x y − γ k_out x k_in y / s) [c x = c y], s = total weight -/
noncomputable def Q (W : ι → ι → ℝ) (c : ι → μ) (γ : ℝ) : ℝ :=
  (1 / tot W) * ∑ x, ∑ y, if c x = c y then (W x y - γ * (∑ y', W x y') * (∑ x', W x' y) / tot W) else 0

lemma modsum_eq_nm (W : ι → ι → ℝ) (c : ι → μ) (x : ι) (m : μ) : modsum W c x m = nm W c x m := rfl
lemma modsumT_eq_nm (W : ι → ι → ℝ) (c : ι → μ) (x : ι) (m : μ) :
    modsumT W c x m = nm (fun a b => W b a) c x m := rfl
lemma modsumT_eq_modsum_transpose (W : ι → ι → ℝ) (c : ι → μ) (x : ι) (m : μ) :
    modsumT W c x m = modsum (fun a b => W b a) c x m := rfl
lemma degsumT_eq_degsum_transpose (W : ι → ι → ℝ) (c : ι → μ) (m : μ) :
    degsumT W c m = degsum (fun a b => W b a) c m := rfl
lemma Q_eq_Qraw (W : ι → ι → ℝ) (c : ι → μ) (γ : ℝ) :
    Q W c γ = (1 / tot W) * Qraw (fun x y => W x y - γ * sum1 (W x) * csum W y / tot W) c := rfl

/-! ### 6a. a single label change: `Store(ci, u, l)` -/

/-- SMT axiom `modsum(M, Store(c,u,l), x, m, n) == modsum(M,c,x,m,n) + If(l == m+1, M[x][u], 0) - If(c[u] == m+1, M[x][u], 0)` -/
theorem modsum_update (W : ι → ι → ℝ) (c : ι → μ) (u : ι) (l : μ) (x : ι) (m : μ) :
    modsum W (Function.update c u l) x m
      = modsum W c x m + (if l = m then W x u else 0) - (if c u = m then W x u else 0) :=
  gsum_update (fun z lab => if lab = m then W x z else 0) c u l

/-- SMT axiom `modsumT(M, Store(c,u,l), x, m, n) == modsumT(M,c,x,m,n) + If(l == m+1, M[u][x], 0) - If(c[u] == m+1, M[u][x], 0)` -/
theorem modsumT_update (W : ι → ι → ℝ) (c : ι → μ) (u : ι) (l : μ) (x : ι) (m : μ) :
    modsumT W (Function.update c u l) x m
      = modsumT W c x m + (if l = m then W u x else 0) - (if c u = m then W u x else 0) :=
  gsum_update (fun z lab => if lab = m then W z x else 0) c u l

/-- SMT axiom `degsum(M, Store(c,u,l), m, n) == degsum(M,c,m,n) + If(l == m+1, sum1(M[u],n), 0) - If(c[u] == m+1, sum1(M[u],n), 0)` -/
theorem degsum_update (W : ι → ι → ℝ) (c : ι → μ) (u : ι) (l : μ) (m : μ) :
    degsum W (Function.update c u l) m
      = degsum W c m + (if l = m then sum1 (W u) else 0) - (if c u = m then sum1 (W u) else 0) :=
  gsum_update (fun z lab => if lab = m then ∑ y, W z y else 0) c u l

/-- SMT axiom `degsumT(M, Store(c,u,l), m, n) == degsumT(M,c,m,n) + If(l == m+1, csum(M,u,n), 0) - If(c[u] == m+1, csum(M,u,n), 0)` -/
theorem degsumT_update (W : ι → ι → ℝ) (c : ι → μ) (u : ι) (l : μ) (m : μ) :
    degsumT W (Function.update c u l) m
      = degsumT W c m + (if l = m then csum W u else 0) - (if c u = m then csum W u else 0) :=
  gsum_update (fun z lab => if lab = m then ∑ y, W y z else 0) c u l

/-! ### 6b. row and column totals of the node-to-module matrix (`lemma_knm_sums`) -/

/-- Σ_m modsum W c x m = rowsum(W, x) (every node carries exactly one label of the finite label type) -/
theorem modsum_row_total [Fintype μ] (W : ι → ι → ℝ) (c : ι → μ) (x : ι) :
    ∑ m, modsum W c x m = sum1 (W x) := by
  unfold modsum sum1
  rw [Finset.sum_comm]
  apply Finset.sum_congr rfl; intro y _
  simp

/-- Σ_m modsumT W c x m = colsum(W, x) -/
theorem modsumT_row_total [Fintype μ] (W : ι → ι → ℝ) (c : ι → μ) (x : ι) :
    ∑ m, modsumT W c x m = csum W x :=
  modsum_row_total (fun a b => W b a) c x

/-- Σ_x modsum W c x m = degsumT W c m (module in-degree) -/
theorem modsum_col_total (W : ι → ι → ℝ) (c : ι → μ) (m : μ) :
    ∑ x, modsum W c x m = degsumT W c m := by
  unfold modsum degsumT
  rw [Finset.sum_comm]
  apply Finset.sum_congr rfl; intro y _
  by_cases h : c y = m <;> simp [h]

/-- Σ_x modsumT W c x m = degsum W c m (module out-degree) -/
theorem modsumT_col_total (W : ι → ι → ℝ) (c : ι → μ) (m : μ) :
    ∑ x, modsumT W c x m = degsum W c m :=
  modsum_col_total (fun a b => W b a) c m

/-- `lemma_knm_sums(K, W, ci, n, 'out')`, row conjunct: `sum1(K[x], n) == sum1(W[x], n)` when `K[x][m] == modsum(W,ci,x,m,n)` -/
theorem knm_row_total [Fintype μ] (K : ι → μ → ℝ) (W : ι → ι → ℝ) (c : ι → μ)
    (hK : ∀ x m, K x m = modsum W c x m) (x : ι) : ∑ m, K x m = sum1 (W x) := by
  simp_rw [hK]; exact modsum_row_total W c x

/-- `lemma_knm_sums(K, W, ci, n, 'out')`, column conjunct: `csum(K, m, n) == degsumT(W, ci, m, n)` -/
theorem knm_col_total (K : ι → μ → ℝ) (W : ι → ι → ℝ) (c : ι → μ)
    (hK : ∀ x m, K x m = modsum W c x m) (m : μ) : ∑ x, K x m = degsumT W c m := by
  simp_rw [hK]; exact modsum_col_total W c m

/-- `lemma_knm_sums(K, W, ci, n, 'in')`, row conjunct: `sum1(K[x], n) == csum(W, x, n)` when `K[x][m] == modsumT(W,ci,x,m,n)` -/
theorem knmT_row_total [Fintype μ] (K : ι → μ → ℝ) (W : ι → ι → ℝ) (c : ι → μ)
    (hK : ∀ x m, K x m = modsumT W c x m) (x : ι) : ∑ m, K x m = csum W x := by
  simp_rw [hK]; exact modsumT_row_total W c x

/-- `lemma_knm_sums(K, W, ci, n, 'in')`, column conjunct: `csum(K, m, n) == degsum(W, ci, m, n)` -/
theorem knmT_col_total (K : ι → μ → ℝ) (W : ι → ι → ℝ) (c : ι → μ)
    (hK : ∀ x m, K x m = modsumT W c x m) (m : μ) : ∑ x, K x m = degsum W c m := by
  simp_rw [hK]; exact modsumT_col_total W c m

/-! ### 6c. empty modules (`lemma_modularity`, "empty") -/

/-- `(∀ y, ci[y] != m+1) → modsum(W, ci, x, m, n) == 0` -/
theorem modsum_empty (W : ι → ι → ℝ) (c : ι → μ) (m : μ) (h : ∀ y, c y ≠ m) (x : ι) : modsum W c x m = 0 := by
  unfold modsum; apply Finset.sum_eq_zero; intro y _; simp [h y]
/-- `(∀ y, ci[y] != m+1) → modsumT(W, ci, x, m, n) == 0` -/
theorem modsumT_empty (W : ι → ι → ℝ) (c : ι → μ) (m : μ) (h : ∀ y, c y ≠ m) (x : ι) : modsumT W c x m = 0 := by
  unfold modsumT; apply Finset.sum_eq_zero; intro y _; simp [h y]
/-- `(∀ y, ci[y] != m+1) → degsum(W, ci, m, n) == 0` -/
theorem degsum_empty (W : ι → ι → ℝ) (c : ι → μ) (m : μ) (h : ∀ y, c y ≠ m) : degsum W c m = 0 := by
  unfold degsum; apply Finset.sum_eq_zero; intro y _; simp [h y]
/-- `(∀ y, ci[y] != m+1) → degsumT(W, ci, m, n) == 0` -/
theorem degsumT_empty (W : ι → ι → ℝ) (c : ι → μ) (m : μ) (h : ∀ y, c y ≠ m) : degsumT W c m = 0 := by
  unfold degsumT; apply Finset.sum_eq_zero; intro y _; simp [h y]

/-! ### 6d. symmetric networks (`lemma_modularity`, "symm") -/

/-- `sym → modsumT(W, ci, x, m, n) == modsum(W, ci, x, m, n)` -/
theorem modsumT_symm (W : ι → ι → ℝ) (hW : ∀ x y, W x y = W y x) (c : ι → μ) (x : ι) (m : μ) :
    modsumT W c x m = modsum W c x m := by
  unfold modsumT modsum; apply Finset.sum_congr rfl; intro y _; rw [hW y x]
/-- `sym → degsumT(W, ci, m, n) == degsum(W, ci, m, n)` -/
theorem degsumT_symm (W : ι → ι → ℝ) (hW : ∀ x y, W x y = W y x) (c : ι → μ) (m : μ) :
    degsumT W c m = degsum W c m := by
  unfold degsumT degsum; apply Finset.sum_congr rfl; intro x _
  congr 1; apply Finset.sum_congr rfl; intro y _; rw [hW y x]
/-- `sym → csum(W, x, n) == sum1(W[x], n)` -/
theorem csum_symm (W : ι → ι → ℝ) (hW : ∀ x y, W x y = W y x) (x : ι) : csum W x = sum1 (W x) := by
  unfold csum sum1; apply Finset.sum_congr rfl; intro y _; rw [hW y x]
/-- `sym → agg(W, ci, a, b, n) == agg(W, ci, b, a, n)` -/
theorem agg_symm (W : ι → ι → ℝ) (hW : ∀ x y, W x y = W y x) (c : ι → μ) (a b : μ) :
    agg W c a b = agg W c b a := by
  unfold agg
  rw [Finset.sum_comm]
  apply Finset.sum_congr rfl; intro y _
  apply Finset.sum_congr rfl; intro x _
  rw [hW x y]
  by_cases h1 : c x = a <;> by_cases h2 : c y = b <;> simp [h1, h2]

/-! ### 7. relabelling invariance (`lemma_relabel`) -/

/-- `lemma_relabel(W, c1, c2, gamma, n)`: `(∀ y z, c1[y]==c1[z] ↔ c2[y]==c2[z]) → Qmod(W,c1,g,n) == Qmod(W,c2,g,n)`;
the two labellings may live in different label types -/
theorem Q_relabel {μ₁ μ₂ : Type} [DecidableEq μ₁] [DecidableEq μ₂] (W : ι → ι → ℝ) (c₁ : ι → μ₁) (c₂ : ι → μ₂)
    (γ : ℝ) (h : ∀ y z, c₁ y = c₁ z ↔ c₂ y = c₂ z) : Q W c₁ γ = Q W c₂ γ := by
  unfold Q
  congr 1
  apply Finset.sum_congr rfl; intro x _
  apply Finset.sum_congr rfl; intro y _
  by_cases h1 : c₁ x = c₁ y
  · rw [if_pos h1, if_pos ((h x y).mp h1)]
  · rw [if_neg h1, if_neg (fun e => h1 ((h x y).mpr e))]

/-- same statement for the un-normalised within-module sum of an arbitrary kernel -/
theorem Qraw_relabel {μ₁ μ₂ : Type} [DecidableEq μ₁] [DecidableEq μ₂] (B : ι → ι → ℝ) (c₁ : ι → μ₁) (c₂ : ι → μ₂)
    (h : ∀ y z, c₁ y = c₁ z ↔ c₂ y = c₂ z) : Qraw B c₁ = Qraw B c₂ := by
  unfold Qraw
  apply Finset.sum_congr rfl; intro x _
  apply Finset.sum_congr rfl; intro y _
  by_cases h1 : c₁ x = c₁ y
  · rw [if_pos h1, if_pos ((h x y).mp h1)]
  · rw [if_neg h1, if_neg (fun e => h1 ((h x y).mpr e))]

/-! ### 8. the gain lemma in the shape of the SMT axiom -/

/-- GAIN LEMMA, un-normalised: `Qraw_move` + `nm_modularity` for the modularity kernel
`B x y = W x y − γ ko x ki y / s`, `ko = ` row sums, `ki = ` column sums of `W` (`s` arbitrary). -/
theorem Qraw_gain (W : ι → ι → ℝ) (γ s : ℝ) (c : ι → μ) (u : ι) (l : μ) (hl : l ≠ c u) :
    Qraw (fun x y => W x y - γ * sum1 (W x) * csum W y / s) (Function.update c u l)
      - Qraw (fun x y => W x y - γ * sum1 (W x) * csum W y / s) c
    = ((modsum W c u l - modsum W c u (c u) + W u u)
          - γ * sum1 (W u) * (degsumT W c l - degsumT W c (c u) + csum W u) / s)
      + ((modsumT W c u l - modsumT W c u (c u) + W u u)
          - γ * csum W u * (degsum W c l - degsum W c (c u) + sum1 (W u)) / s) := by
  have h1 : ∀ m, nm (fun x y => W x y - γ * sum1 (W x) * csum W y / s) c u m
      = modsum W c u m - γ * sum1 (W u) * degsumT W c m / s :=
    fun m => nm_modularity W (fun x => sum1 (W x)) (fun y => csum W y) γ s c u m
  have hT : (fun x y => (fun x y => W x y - γ * sum1 (W x) * csum W y / s) y x)
      = fun x y => (fun a b => W b a) x y - γ * csum W x * sum1 (W y) / s := by
    funext x y; ring
  have h2 : ∀ m, nm (fun x y => (fun x y => W x y - γ * sum1 (W x) * csum W y / s) y x) c u m
      = modsumT W c u m - γ * csum W u * degsum W c m / s := by
    intro m
    rw [hT]
    exact nm_modularity (fun a b => W b a) (fun x => csum W x) (fun y => sum1 (W y)) γ s c u m
  rw [Qraw_move _ c u l hl, h1, h1, h2, h2]
  ring

/-- GAIN LEMMA, exactly the SMT axiom
`0≤u<n ∧ l != c[u] ∧ tsum(M,n) != 0 → Qmod(M, Store(c,u,l), g, n) - Qmod(M, c, g, n) == udiv(out_part + in_part, tsum(M,n))`
(`umul`/`udiv` read as real multiplication / division; the hypothesis `s ≠ 0` is not needed in Lean). -/
theorem Q_gain (W : ι → ι → ℝ) (γ : ℝ) (c : ι → μ) (u : ι) (l : μ) (hl : l ≠ c u) :
    Q W (Function.update c u l) γ - Q W c γ
    = (((modsum W c u l - modsum W c u (c u) + W u u)
          - γ * sum1 (W u) * (degsumT W c l - degsumT W c (c u) + csum W u) / tot W)
      + ((modsumT W c u l - modsumT W c u (c u) + W u u)
          - γ * csum W u * (degsum W c l - degsum W c (c u) + sum1 (W u)) / tot W)) / tot W := by
  rw [Q_eq_Qraw, Q_eq_Qraw, ← mul_sub, Qraw_gain W γ (tot W) c u l hl]
  ring

/-- `lemma_q_from_aggregate` restated with `Q`: for `s = tsum(W, n) ≠ 0`,
`trace(w)/s − γ·sum((w/s)·(w/s)) = Qmod(W, ci, γ, n)` where `w = agg W c` -/
theorem q_from_aggregate_Q [Fintype μ] (W : ι → ι → ℝ) (c : ι → μ) (γ : ℝ) (hs : tot W ≠ 0) :
    (∑ a, agg W c a a) / tot W - γ * (∑ a, ∑ b, ∑ t, (agg W c a t / tot W) * (agg W c t b / tot W))
      = Q W c γ :=
  q_from_aggregate W c γ (tot W) hs

/-- `lemma_q_from_aggregate(w, X, W, ci, gamma, s, m, n)` in the shape of the SMT lemma instance: `w[a][b] == agg(W,ci,a,b,n)`,
`X[a][b] == udiv(w[a][b], s)`, `s == tsum(W,n) != 0`  ⟹  `udiv(trace1(w), s) - umul(g, sumdot(X, X)) == Qmod(W, ci, g, n)` -/
theorem q_from_aggregate_smt [Fintype μ] (w X : μ → μ → ℝ) (W : ι → ι → ℝ) (c : ι → μ) (γ s : ℝ)
    (hw : ∀ a b, w a b = agg W c a b) (hX : ∀ a b, X a b = w a b / s) (hs : s = tot W) (hs0 : s ≠ 0) :
    (∑ a, w a a) / s - γ * (∑ a, ∑ b, ∑ t, X a t * X t b) = Q W c γ := by
  subst hs
  simp_rw [hX, hw]
  exact q_from_aggregate_Q W c γ hs0

end modules

/-! ## The uninterpreted product / quotient `umul`, `udiv` of the SMT encoding are real multiplication / division -/
section arith
/-- SMT axiom `ra > 0 ∧ rb > 0 → udiv(ra, rb) > 0` -/
theorem udiv_pos (a b : ℝ) (ha : 0 < a) (hb : 0 < b) : 0 < a / b := div_pos ha hb
/-- SMT axiom `ra >= 0 ∧ rb > 0 → udiv(ra, rb) >= 0` -/
theorem udiv_nonneg (a b : ℝ) (ha : 0 ≤ a) (hb : 0 < b) : 0 ≤ a / b := div_nonneg ha hb.le
/-- SMT axiom `umul(ra, rb) == umul(rb, ra)` -/
theorem umul_comm (a b : ℝ) : a * b = b * a := mul_comm a b
end arith

/-! ## Second batch: singletons, explicit-divisor gain (`Qrawg`, `QrawB`), `umul` linearity, walks / shortest-walk length,
support of a product of non-negative matrices -/
section modules2
open BigOperators Finset
variable {ι : Type} [Fintype ι] [DecidableEq ι] {μ : Type} [DecidableEq μ]

/-! ### 6e. singleton modules (`lemma_modularity`, "singletons": `ci[y] == y + 1`, module index `m` ↔ label `m + 1`) -/

/-- `single → modsum(W, ci, x, m, n) == W[x][m]` -/
theorem modsum_single (W : ι → ι → ℝ) (c : ι → ι) (hc : ∀ y, c y = y) (x m : ι) : modsum W c x m = W x m := by
  unfold modsum; simp [hc]
/-- `single → modsumT(W, ci, x, m, n) == W[m][x]` -/
theorem modsumT_single (W : ι → ι → ℝ) (c : ι → ι) (hc : ∀ y, c y = y) (x m : ι) : modsumT W c x m = W m x := by
  unfold modsumT; simp [hc]
/-- `single → degsum(W, ci, m, n) == sum1(W[m], n)` -/
theorem degsum_single (W : ι → ι → ℝ) (c : ι → ι) (hc : ∀ y, c y = y) (m : ι) : degsum W c m = sum1 (W m) := by
  unfold degsum sum1; simp [hc]
/-- `single → degsumT(W, ci, m, n) == csum(W, m, n)` -/
theorem degsumT_single (W : ι → ι → ℝ) (c : ι → ι) (hc : ∀ y, c y = y) (m : ι) : degsumT W c m = csum W m := by
  unfold degsumT csum; simp [hc]

/-! ### 8b. gain with an explicit divisor, and for an arbitrary kernel -/

/-- `Qrawg(M, c, gamma, sd, n)` = Σ_{x,y same module} (M x y − γ·kout x·kin y / sd), `sd` an arbitrary divisor -/
noncomputable def Qrawg (W : ι → ι → ℝ) (c : ι → μ) (γ sd : ℝ) : ℝ :=
  Qraw (fun x y => W x y - γ * sum1 (W x) * csum W y / sd) c

/-- SMT axiom `0≤u<n ∧ l != c[u] → Qrawg(M, Store(c,u,l), g, sd, n) - Qrawg(M, c, g, sd, n) == out_g + in_g` -/
theorem Qrawg_gain (W : ι → ι → ℝ) (γ sd : ℝ) (c : ι → μ) (u : ι) (l : μ) (hl : l ≠ c u) :
    Qrawg W (Function.update c u l) γ sd - Qrawg W c γ sd
    = ((modsum W c u l - modsum W c u (c u) + W u u)
          - γ * sum1 (W u) * (degsumT W c l - degsumT W c (c u) + csum W u) / sd)
      + ((modsumT W c u l - modsumT W c u (c u) + W u u)
          - γ * csum W u * (degsum W c l - degsum W c (c u) + sum1 (W u)) / sd) :=
  Qraw_gain W γ sd c u l hl

/-- SMT axiom `0≤u<n ∧ l != c[u] → QrawB(B, Store(c,u,l), n) - QrawB(B, c, n)
  == (modsum(B,c,u,l-1,n) - modsum(B,c,u,c[u]-1,n) + B[u][u]) + (modsumT(B,c,u,l-1,n) - modsumT(B,c,u,c[u]-1,n) + B[u][u])`
(`QrawB(B, c, n)` is `Qraw B c`; this is `Qraw_move` restated with `modsum`/`modsumT`) -/
theorem QrawB_move (B : ι → ι → ℝ) (c : ι → μ) (u : ι) (l : μ) (hl : l ≠ c u) :
    Qraw B (Function.update c u l) - Qraw B c
      = (modsum B c u l - modsum B c u (c u) + B u u) + (modsumT B c u l - modsumT B c u (c u) + B u u) :=
  Qraw_move B c u l hl

/-- `lemma_relabel_g(M, c1, c2, gamma, sd, n)`: `(∀ y z, c1[y]==c1[z] ↔ c2[y]==c2[z]) → Qrawg(M,c1,g,sd,n) == Qrawg(M,c2,g,sd,n)` -/
theorem Qrawg_relabel {μ₁ μ₂ : Type} [DecidableEq μ₁] [DecidableEq μ₂] (W : ι → ι → ℝ) (c₁ : ι → μ₁) (c₂ : ι → μ₂)
    (γ sd : ℝ) (h : ∀ y z, c₁ y = c₁ z ↔ c₂ y = c₂ z) : Qrawg W c₁ γ sd = Qrawg W c₂ γ sd :=
  Qraw_relabel _ c₁ c₂ h

/-- `Qmod` is `Qrawg` with the total weight as divisor, normalised -/
theorem Q_eq_Qrawg (W : ι → ι → ℝ) (c : ι → μ) (γ : ℝ) : Q W c γ = (1 / tot W) * Qrawg W c γ (tot W) := rfl

end modules2

section arith2
/-- `lemma_umul_linear(d, a, b)`: `umul(d, a) - umul(d, b) == umul(d, a - b)` -/
theorem umul_sub (d a b : ℝ) : d * a - d * b = d * (a - b) := by ring
/-- `lemma_umul_linear(d, a, b)`: `umul(d, 2 * a) == 2 * umul(d, a)` (used for `a`, `b`, `a - b`) -/
theorem umul_two (d a : ℝ) : d * (2 * a) = 2 * (d * a) := by ring
end arith2

/-! ### Walks in the digraph of non-zero entries and the shortest-walk length (`walk`, `sdist`, `lemma_walks`).
The SMT function `walk(G, x, y, m)` is only constrained for `m ≥ 1`; here `walk G x y 0` is the empty walk (`x = y`), which
makes concatenation uniform.  `sdist` is the least `m ≥ 1` with a walk of `m` edges, `0` if there is none. -/
section walks
open Finset
variable {ι : Type} [Fintype ι] [DecidableEq ι]

/-- `walk G x y m`: there is a walk of exactly `m` edges (non-zero entries of `G`) from `x` to `y` -/
def walk (G : ι → ι → ℝ) (x : ι) : ι → ℕ → Prop
  | y, 0 => x = y
  | y, m + 1 => ∃ z, walk G x z m ∧ G z y ≠ 0

/-- `sdist G x y`: least `m ≥ 1` with `walk G x y m`; `0` if no such walk -/
noncomputable def sdist (G : ι → ι → ℝ) (x y : ι) : ℕ := sInf {m | 1 ≤ m ∧ walk G x y m}

theorem walk_zero (G : ι → ι → ℝ) (x y : ι) : walk G x y 0 ↔ x = y := Iff.rfl

/-- `lemma_walks` step (suffix form, both directions; the SMT side Skolemises `→` by `walkmid`):
`walk(G,x,y,m+1) ↔ ∃ z, walk(G,x,z,m) ∧ G[z][y] != 0` -/
theorem walk_succ (G : ι → ι → ℝ) (x y : ι) (m : ℕ) :
    walk G x y (m + 1) ↔ ∃ z, walk G x z m ∧ G z y ≠ 0 := Iff.rfl

/-- `lemma_walks` base: `walk(G,x,y,1) == (G[x][y] != 0)` -/
theorem walk_one (G : ι → ι → ℝ) (x y : ι) : walk G x y 1 ↔ G x y ≠ 0 := by
  rw [walk_succ]
  constructor
  · rintro ⟨z, hz, hG⟩
    rw [walk_zero] at hz; rw [hz]; exact hG
  · intro h; exact ⟨x, (walk_zero G x x).mpr rfl, h⟩

/-- concatenation and splitting of walks -/
theorem walk_add (G : ι → ι → ℝ) (x y : ι) (a b : ℕ) :
    walk G x y (a + b) ↔ ∃ z, walk G x z a ∧ walk G z y b := by
  induction b generalizing y with
  | zero =>
    constructor
    · intro h; exact ⟨y, h, (walk_zero G y y).mpr rfl⟩
    · rintro ⟨z, h1, h2⟩
      rw [walk_zero] at h2; rw [← h2]; exact h1
  | succ b ih =>
    rw [← Nat.add_assoc, walk_succ]
    constructor
    · rintro ⟨w, hw, hG⟩
      obtain ⟨z, h1, h2⟩ := (ih w).mp hw
      exact ⟨z, h1, (walk_succ G z y b).mpr ⟨w, h2, hG⟩⟩
    · rintro ⟨z, h1, h2⟩
      obtain ⟨w, hw, hG⟩ := (walk_succ G z y b).mp h2
      exact ⟨w, (ih w).mpr ⟨z, h1, hw⟩, hG⟩

theorem walk_concat (G : ι → ι → ℝ) (x z y : ι) (a b : ℕ) (h1 : walk G x z a) (h2 : walk G z y b) :
    walk G x y (a + b) := (walk_add G x y a b).mpr ⟨z, h1, h2⟩

/-- `lemma_walks` step, PREFIX form (SMT Skolem function `walkfirst`):
`walk(G,x,y,m+1) ↔ ∃ z, G[x][z] != 0 ∧ walk(G,z,y,m)` -/
theorem walk_succ_prefix (G : ι → ι → ℝ) (x y : ι) (m : ℕ) :
    walk G x y (m + 1) ↔ ∃ z, G x z ≠ 0 ∧ walk G z y m := by
  rw [Nat.add_comm, walk_add]
  constructor
  · rintro ⟨z, h1, h2⟩; exact ⟨z, (walk_one G x z).mp h1, h2⟩
  · rintro ⟨z, h1, h2⟩; exact ⟨z, (walk_one G x z).mpr h1, h2⟩

/-- `lemma_walks` sdist: `m >= 1 ∧ walk(G,x,y,m) → sdist(G,x,y) >= 1 ∧ sdist(G,x,y) <= m`
(`sdist(G,x,y) >= 0` holds by typing, `sdist : ℕ`) -/
theorem sdist_le (G : ι → ι → ℝ) (x y : ι) (m : ℕ) (h : walk G x y m) (hm : 1 ≤ m) :
    1 ≤ sdist G x y ∧ sdist G x y ≤ m := by
  have hmem : m ∈ {m | 1 ≤ m ∧ walk G x y m} := ⟨hm, h⟩
  have hne : ({m | 1 ≤ m ∧ walk G x y m} : Set ℕ).Nonempty := ⟨m, hmem⟩
  exact ⟨(Nat.sInf_mem hne).1, Nat.sInf_le hmem⟩

/-- `lemma_walks` sdist: `sdist(G,x,y) >= 1 → walk(G,x,y,sdist(G,x,y))` -/
theorem walk_sdist (G : ι → ι → ℝ) (x y : ι) (h : 1 ≤ sdist G x y) : walk G x y (sdist G x y) := by
  have hne : ({m | 1 ≤ m ∧ walk G x y m} : Set ℕ).Nonempty := by
    by_contra hne
    rw [Set.not_nonempty_iff_eq_empty] at hne
    unfold sdist at h
    rw [hne, Nat.sInf_empty] at h
    omega
  exact (Nat.sInf_mem hne).2

/-- `lemma_walks` split (SMT Skolem function `splitz`): `k >= 1 ∧ sdist(G,x,y) > k →
  z != x ∧ walk(G,x,z,k) ∧ sdist(G,x,z) == k` for some node `z` (the k-th node of a shortest walk) -/
theorem sdist_split (G : ι → ι → ℝ) (x y : ι) (k : ℕ) (hk : 1 ≤ k) (h : k < sdist G x y) :
    ∃ z, z ≠ x ∧ walk G x z k ∧ sdist G x z = k := by
  have hd : 1 ≤ sdist G x y := by omega
  have hw := walk_sdist G x y hd
  obtain ⟨b, hb⟩ : ∃ b, sdist G x y = k + b := ⟨sdist G x y - k, by omega⟩
  have hb1 : 1 ≤ b := by omega
  rw [hb, walk_add] at hw
  obtain ⟨z, hz1, hz2⟩ := hw
  refine ⟨z, ?_, hz1, ?_⟩
  · intro hzx
    rw [hzx] at hz2
    have := (sdist_le G x y b hz2 hb1).2
    omega
  · obtain ⟨h1, h2⟩ := sdist_le G x z k hz1 hk
    by_contra hne
    have hw' := walk_sdist G x z h1
    have hcat := walk_concat G x z y _ _ hw' hz2
    have := (sdist_le G x y _ hcat (by omega)).2
    omega

/-- `lemma_walks` pigeonhole: `x != y → sdist(G,x,y) <= n - 1`: the nodes at distances `1, …, sdist x y` from `x` are
pairwise distinct and different from `x` -/
theorem sdist_lt_card (G : ι → ι → ℝ) (x y : ι) (hxy : x ≠ y) : sdist G x y ≤ Fintype.card ι - 1 := by
  have hsub : Finset.Icc 1 (sdist G x y) ⊆ (Finset.univ.erase x).image (sdist G x) := by
    intro k hk
    rw [Finset.mem_Icc] at hk
    rw [Finset.mem_image]
    by_cases hkd : k = sdist G x y
    · exact ⟨y, Finset.mem_erase.mpr ⟨hxy.symm, Finset.mem_univ _⟩, hkd.symm⟩
    · obtain ⟨z, hz, _, hzk⟩ := sdist_split G x y k hk.1 (by omega)
      exact ⟨z, Finset.mem_erase.mpr ⟨hz, Finset.mem_univ _⟩, hzk⟩
  have h1 := Finset.card_le_card hsub
  have h2 := Finset.card_image_le (s := Finset.univ.erase x) (f := sdist G x)
  rw [Nat.card_Icc] at h1
  rw [Finset.card_erase_of_mem (Finset.mem_univ x), Finset.card_univ] at h2
  omega

end walks

/-! ### Support of a product of entrywise non-negative matrices (`np.dot` contract `dot_support` in engine/pyvc/npspec.py) -/
section dotsupport
open BigOperators Finset
variable {ι κ₁ κ₂ : Type} [Fintype κ₁]

/-- `np.dot` support contract, `P[x][y] >= 0` -/
theorem dot_nonneg (A : ι → κ₁ → ℝ) (B : κ₁ → κ₂ → ℝ) (hA : ∀ x z, 0 ≤ A x z) (hB : ∀ z y, 0 ≤ B z y) (x : ι) (y : κ₂) :
    0 ≤ ∑ z, A x z * B z y :=
  Finset.sum_nonneg (fun z _ => mul_nonneg (hA x z) (hB z y))

/-- `np.dot` support contract, `P[x][y] != 0 ↔ ∃ z, A[x][z] != 0 ∧ B[z][y] != 0` (the SMT side Skolemises `→` by `dotwit`) -/
theorem dot_support (A : ι → κ₁ → ℝ) (B : κ₁ → κ₂ → ℝ) (hA : ∀ x z, 0 ≤ A x z) (hB : ∀ z y, 0 ≤ B z y) (x : ι) (y : κ₂) :
    (∑ z, A x z * B z y) ≠ 0 ↔ ∃ z, A x z ≠ 0 ∧ B z y ≠ 0 := by
  rw [Ne, Finset.sum_eq_zero_iff_of_nonneg (fun z _ => mul_nonneg (hA x z) (hB z y))]
  simp [mul_eq_zero, not_or]

end dotsupport

/-! ### Aggregation composes (`lemma_agg_compose`, multi-level Louvain): aggregating the level matrix `Wl = agg W cur`
by a partition `p` of the super-nodes is aggregating `W` by the composed labelling `p ∘ cur`; total weight and modularity
are preserved.  `ι` original nodes, `μ` level-1 super-nodes, `ν` labels of the partition of the super-nodes. -/
section aggcompose
open BigOperators Finset
variable {ι : Type} [Fintype ι] [DecidableEq ι] {μ : Type} [Fintype μ] [DecidableEq μ] {ν : Type} [DecidableEq ν]

/-- generic collapse: a sum over pairs of super-nodes selected by `P` of the aggregate is the sum over the pairs of
original nodes whose super-nodes are selected -/
lemma agg_collapse (F : ι → ι → ℝ) (cur : ι → μ) (P : μ → μ → Prop) [∀ a b, Decidable (P a b)] :
    (∑ a, ∑ b, if P a b then agg F cur a b else 0) = ∑ x, ∑ y, if P (cur x) (cur y) then F x y else 0 := by
  unfold agg
  have h1 : ∀ a b, (if P a b then ∑ x, ∑ y, (if cur x = a ∧ cur y = b then F x y else 0) else 0)
      = ∑ x, ∑ y, if cur x = a ∧ cur y = b then (if P a b then F x y else 0) else 0 := by
    intro a b; by_cases h : P a b <;> simp [h]
  simp_rw [h1]
  have h2 : ∀ x y, (∑ a, ∑ b, if cur x = a ∧ cur y = b then (if P a b then F x y else 0) else 0)
      = if P (cur x) (cur y) then F x y else 0 := by
    intro x y
    rw [Finset.sum_eq_single (cur x), Finset.sum_eq_single (cur y)]
    · simp
    · intro b _ hb; simp [Ne.symm hb]
    · intro hn; exact absurd (mem_univ _) hn
    · intro a _ ha; apply Finset.sum_eq_zero; intro b _; simp [Ne.symm ha]
    · intro hn; exact absurd (mem_univ _) hn
  simp_rw [← h2]
  refine (Finset.sum_congr rfl (fun a _ => Finset.sum_comm)).trans ?_
  refine Finset.sum_comm.trans ?_
  refine Finset.sum_congr rfl (fun x _ => ?_)
  refine (Finset.sum_congr rfl (fun a _ => Finset.sum_comm)).trans ?_
  exact Finset.sum_comm

/-- AGGREGATION COMPOSES: `agg (agg W cur) p = agg W (p ∘ cur)` -/
theorem agg_comp' (W : ι → ι → ℝ) (cur : ι → μ) (p : μ → ν) (a b : ν) :
    agg (fun a' b' => agg W cur a' b') p a b = agg W (p ∘ cur) a b :=
  agg_collapse W cur (fun a' b' => p a' = a ∧ p b' = b)

/-- same, for a level matrix `Wl` given entrywise (`Wl[a][b] == agg(W, cur, a, b, n)`) -/
theorem agg_comp (W : ι → ι → ℝ) (cur : ι → μ) (p : μ → ν) (Wl : μ → μ → ℝ)
    (hWl : ∀ a b, Wl a b = agg W cur a b) (a b : ν) :
    agg Wl p a b = agg W (p ∘ cur) a b := by
  have : Wl = fun a' b' => agg W cur a' b' := by funext a' b'; exact hWl a' b'
  rw [this]; exact agg_comp' W cur p a b

/-- the aggregate keeps the total weight -/
theorem tot_agg' (W : ι → ι → ℝ) (cur : ι → μ) : tot (fun a b => agg W cur a b) = tot W := by
  have h := agg_collapse W cur (fun _ _ => True)
  simpa [tot] using h

theorem tot_agg (W : ι → ι → ℝ) (cur : ι → μ) (Wl : μ → μ → ℝ) (hWl : ∀ a b, Wl a b = agg W cur a b) :
    tot Wl = tot W := by
  have : Wl = fun a' b' => agg W cur a' b' := by funext a' b'; exact hWl a' b'
  rw [this]; exact tot_agg' W cur

/-- within-module sum of an arbitrary kernel: `Qraw (agg F cur) p = Qraw F (p ∘ cur)` -/
theorem Qraw_agg_comp (F : ι → ι → ℝ) (cur : ι → μ) (p : μ → ν) :
    Qraw (fun a b => agg F cur a b) p = Qraw F (p ∘ cur) :=
  agg_collapse F cur (fun a b => p a = p b)

/-- the modularity kernel of the aggregate is the aggregate of the modularity kernel (`s` arbitrary):
degrees of a super-node are the summed degrees of its members (`rowsum_agg`, `colsum_agg`) -/
theorem agg_kernel (W : ι → ι → ℝ) (cur : ι → μ) (γ s : ℝ) (a b : μ) :
    agg (fun x y => W x y - γ * sum1 (W x) * csum W y / s) cur a b
      = agg W cur a b - γ * sum1 (fun b' => agg W cur a b') * csum (fun a' b' => agg W cur a' b') b / s := by
  have hr : sum1 (fun b' => agg W cur a b') = ∑ x, if cur x = a then (∑ y, W x y) else 0 := rowsum_agg W cur a
  have hc : csum (fun a' b' => agg W cur a' b') b = ∑ y, if cur y = b then (∑ x, W x y) else 0 := colsum_agg W cur b
  rw [hr, hc]
  have hprod : (∑ x, if cur x = a then (∑ y, W x y) else 0) * (∑ y, if cur y = b then (∑ x, W x y) else 0)
      = ∑ x, ∑ y, if cur x = a ∧ cur y = b then sum1 (W x) * csum W y else 0 := by
    rw [Finset.sum_mul_sum]
    apply Finset.sum_congr rfl; intro x _
    apply Finset.sum_congr rfl; intro y _
    by_cases h1 : cur x = a <;> by_cases h2 : cur y = b <;> simp [h1, h2, sum1, csum]
  have hre : γ * (∑ x, if cur x = a then (∑ y, W x y) else 0) * (∑ y, if cur y = b then (∑ x, W x y) else 0) / s
      = γ / s * ((∑ x, if cur x = a then (∑ y, W x y) else 0) * (∑ y, if cur y = b then (∑ x, W x y) else 0)) := by
    ring
  rw [hre, hprod]
  unfold agg
  simp only [Finset.mul_sum, ← Finset.sum_sub_distrib]
  apply Finset.sum_congr rfl; intro x _
  apply Finset.sum_congr rfl; intro y _
  by_cases h : cur x = a ∧ cur y = b
  · simp only [h, and_self, if_true]; ring
  · simp [h]

/-- MODULARITY OF THE AGGREGATE: `Q (agg W cur) p γ = Q W (p ∘ cur) γ` (unconditionally; no `tot W ≠ 0` needed) -/
theorem Q_agg_comp' (W : ι → ι → ℝ) (cur : ι → μ) (p : μ → ν) (γ : ℝ) :
    Q (fun a b => agg W cur a b) p γ = Q W (p ∘ cur) γ := by
  rw [Q_eq_Qraw, Q_eq_Qraw, tot_agg' W cur, ← Qraw_agg_comp]
  congr 2
  funext a b
  exact (agg_kernel W cur γ (tot W) a b).symm

theorem Q_agg_comp (W : ι → ι → ℝ) (cur : ι → μ) (p : μ → ν) (Wl : μ → μ → ℝ)
    (hWl : ∀ a b, Wl a b = agg W cur a b) (γ : ℝ) :
    Q Wl p γ = Q W (p ∘ cur) γ := by
  have : Wl = fun a' b' => agg W cur a' b' := by funext a' b'; exact hWl a' b'
  rw [this]; exact Q_agg_comp' W cur p γ

/-- `lemma_agg_compose(W0, cur, Wl, p, new, gamma, N0, n)` in the shape of the SMT lemma instance:
`Wl[a][b] == agg(W0, cur, a, b, N0)` for super-nodes `a, b < n`, `new[x] == p[cur[x] - 1]` for nodes `x < N0`  ⟹
`agg(Wl, p, a, b, n) == agg(W0, new, a, b, N0)`, `tsum(Wl, n) == tsum(W0, N0)`, `Qmod(Wl, p, g, n) == Qmod(W0, new, g, N0)` -/
theorem agg_compose_smt (W : ι → ι → ℝ) (cur : ι → μ) (Wl : μ → μ → ℝ) (p : μ → ν) (new : ι → ν) (γ : ℝ)
    (hWl : ∀ a b, Wl a b = agg W cur a b) (hnew : ∀ x, new x = p (cur x)) :
    (∀ a b, agg Wl p a b = agg W new a b) ∧ tot Wl = tot W ∧ Q Wl p γ = Q W new γ := by
  have : new = p ∘ cur := by funext x; exact hnew x
  rw [this]
  exact ⟨fun a b => agg_comp W cur p Wl hWl a b, tot_agg W cur Wl hWl, Q_agg_comp W cur p Wl hWl γ⟩

/-- `lemma_agg_identity(W, c, n)`: with singleton labels (`c[y] == y + 1`, here `c = id`) the aggregate is the matrix itself -/
theorem agg_id (W : ι → ι → ℝ) (a b : ι) : agg W (fun x => x) a b = W a b := by
  unfold agg
  rw [Finset.sum_eq_single a]
  · rw [Finset.sum_eq_single b]
    · simp
    · intro y _ hy; simp [hy]
    · intro hn; exact absurd (mem_univ _) hn
  · intro x _ hx
    apply Finset.sum_eq_zero
    intro y _; simp [hx]
  · intro hn; exact absurd (mem_univ _) hn

end aggcompose

/-! ### Aggregation composes, un-normalised / explicit-divisor versions (`Qrawg`, signed Louvain): every statement holds for
EVERY real divisor `sd` (also `sd = 0`, where `x / 0 = 0` on both sides). -/
section aggcompose2
open BigOperators Finset
variable {ι : Type} [Fintype ι] [DecidableEq ι] {μ : Type} [Fintype μ] [DecidableEq μ] {ν : Type} [DecidableEq ν]

/-- `Qrawg (agg W cur) p γ sd = Qrawg W (p ∘ cur) γ sd`, arbitrary divisor (`Qraw_agg_comp` + `agg_kernel`) -/
theorem Qrawg_agg_comp' (W : ι → ι → ℝ) (cur : ι → μ) (p : μ → ν) (γ sd : ℝ) :
    Qrawg (fun a b => agg W cur a b) p γ sd = Qrawg W (p ∘ cur) γ sd := by
  unfold Qrawg
  rw [← Qraw_agg_comp]
  congr 1
  funext a b
  exact (agg_kernel W cur γ sd a b).symm

/-- same, for a level matrix `Wl` given entrywise (`Wl[a][b] == agg(W, cur, a, b, n)`) -/
theorem Qrawg_agg_comp (W : ι → ι → ℝ) (cur : ι → μ) (p : μ → ν) (Wl : μ → μ → ℝ)
    (hWl : ∀ a b, Wl a b = agg W cur a b) (γ sd : ℝ) :
    Qrawg Wl p γ sd = Qrawg W (p ∘ cur) γ sd := by
  have : Wl = fun a' b' => agg W cur a' b' := by funext a' b'; exact hWl a' b'
  rw [this]; exact Qrawg_agg_comp' W cur p γ sd

/-- `lemma_agg_compose_g(W0, cur, Wl, p, new, gamma, sd, N0, n)` in the shape of the SMT lemma instance:
`Wl[a][b] == agg(W0, cur, a, b, N0)`, `new[x] == p[cur[x] - 1]`  ⟹
`agg(Wl, p, a, b, n) == agg(W0, new, a, b, N0)` and `Qrawg(Wl, p, g, sd, n) == Qrawg(W0, new, g, sd, N0)` (any `sd`) -/
theorem agg_compose_g_smt (W : ι → ι → ℝ) (cur : ι → μ) (Wl : μ → μ → ℝ) (p : μ → ν) (new : ι → ν) (γ sd : ℝ)
    (hWl : ∀ a b, Wl a b = agg W cur a b) (hnew : ∀ x, new x = p (cur x)) :
    (∀ a b, agg Wl p a b = agg W new a b) ∧ Qrawg Wl p γ sd = Qrawg W new γ sd := by
  have : new = p ∘ cur := by funext x; exact hnew x
  rw [this]
  exact ⟨fun a b => agg_comp W cur p Wl hWl a b, Qrawg_agg_comp W cur p Wl hWl γ sd⟩

/-- `Qrawg` exposed as a double sum of an explicit kernel over same-label pairs: row sum (out-degree) of `x`,
column sum (in-degree) of `y` -/
theorem Qrawg_def_sum (W : ι → ι → ℝ) (c : ι → ν) (γ sd : ℝ) :
    Qrawg W c γ sd = ∑ x, ∑ y, if c x = c y then (W x y - γ * sum1 (W x) * csum W y / sd) else 0 := rfl

/-- symmetric case: row sums for both factors -/
theorem Qrawg_def_sum_symm (W : ι → ι → ℝ) (hW : ∀ x y, W x y = W y x) (c : ι → ν) (γ sd : ℝ) :
    Qrawg W c γ sd = ∑ x, ∑ y, if c x = c y then (W x y - γ * sum1 (W x) * sum1 (W y) / sd) else 0 := by
  rw [Qrawg_def_sum]
  apply Finset.sum_congr rfl; intro x _
  apply Finset.sum_congr rfl; intro y _
  rw [csum_symm W hW y]

/-- un-normalised sibling of `q_from_aggregate`: for `w = agg W c`,
`trace(w) − (γ · sum(w·w)) / sd = Qrawg W c γ sd` for every divisor `sd` -/
theorem qg_from_aggregate (W : ι → ι → ℝ) (c : ι → μ) (γ sd : ℝ) :
    (∑ a, agg W c a a) - γ * (∑ a, ∑ b, ∑ t, agg W c a t * agg W c t b) / sd = Qrawg W c γ sd := by
  have hsplit : Qrawg W c γ sd
      = (∑ x, ∑ y, if c x = c y then W x y else 0)
        - γ / sd * (∑ x, ∑ y, if c x = c y then (∑ y', W x y') * (∑ x', W x' y) else 0) := by
    have key : ∀ (A B : ι → ι → ℝ) (k : ℝ),
        (∑ x, ∑ y, (A x y - k * B x y)) = (∑ x, ∑ y, A x y) - k * (∑ x, ∑ y, B x y) := by
      intro A B k; simp only [Finset.sum_sub_distrib, Finset.mul_sum]
    rw [Qrawg_def_sum, ← key]
    unfold sum1 csum
    apply Finset.sum_congr rfl; intro x _
    apply Finset.sum_congr rfl; intro y _
    by_cases h : c x = c y
    · simp only [h, if_true]; ring
    · simp [h]
  rw [hsplit, sum_sq_agg (agg W c), trace_agg, deg_part c (fun x => ∑ y', W x y') (fun y => ∑ x', W x' y)]
  simp_rw [colsum_agg, rowsum_agg]
  have : (∑ t : μ, (∑ y, if c y = t then (∑ x, W x y) else 0) * (∑ x, if c x = t then (∑ y, W x y) else 0))
       = ∑ t : μ, (∑ x, if c x = t then (∑ y, W x y) else 0) * (∑ y, if c y = t then (∑ x, W x y) else 0) := by
    apply Finset.sum_congr rfl; intro t _; ring
  rw [this]
  ring

/-- `lemma_qg_from_aggregate(w, W, ci, gamma, sd, m, n)` in the shape of the SMT lemma instance: `w[a][b] == agg(W,ci,a,b,n)`
⟹ `trace1(w, m) - udiv(umul(g, sumdot(w, w, m)), sd) == Qrawg(W, ci, g, sd, n)` (any `sd`) -/
theorem qg_from_aggregate_smt (w : μ → μ → ℝ) (W : ι → ι → ℝ) (c : ι → μ) (γ sd : ℝ)
    (hw : ∀ a b, w a b = agg W c a b) :
    (∑ a, w a a) - (γ * (∑ a, ∑ b, ∑ t, w a t * w t b)) / sd = Qrawg W c γ sd := by
  simp_rw [hw]
  exact qg_from_aggregate W c γ sd

/-- the sum over same-label pairs does not see the symmetrisation of the kernel -/
theorem Qraw_symmetrise (K : ι → ι → ℝ) (c : ι → ν) :
    Qraw (fun x y => (K x y + K y x) / 2) c = Qraw K c := by
  have hT : (∑ x, ∑ y, if c x = c y then K y x else 0) = ∑ x, ∑ y, if c x = c y then K x y else 0 := by
    rw [Finset.sum_comm]
    apply Finset.sum_congr rfl; intro y _
    apply Finset.sum_congr rfl; intro x _
    by_cases h : c x = c y
    · rw [if_pos h, if_pos h.symm]
    · rw [if_neg h, if_neg (fun e => h e.symm)]
  have hsplit : Qraw (fun x y => (K x y + K y x) / 2) c
      = ((∑ x, ∑ y, if c x = c y then K x y else 0) + (∑ x, ∑ y, if c x = c y then K y x else 0)) / 2 := by
    unfold Qraw
    rw [← Finset.sum_add_distrib, Finset.sum_div]
    apply Finset.sum_congr rfl; intro x _
    rw [← Finset.sum_add_distrib, Finset.sum_div]
    apply Finset.sum_congr rfl; intro y _
    by_cases h : c x = c y <;> simp [h]
  rw [hsplit, hT]
  unfold Qraw
  ring

/-- link between the generic objective of `community_louvain` (symmetrised kernel `Bo`) and modularity:
`Qraw Bo c / tot W = Q W c γ`; no hypothesis `tot W ≠ 0` is needed -/
theorem Q_from_symmetrised_kernel (W : ι → ι → ℝ) (c : ι → ν) (γ : ℝ) (Bo : ι → ι → ℝ)
    (hB : ∀ x y, Bo x y = ((W x y - γ * sum1 (W x) * csum W y / tot W)
                          + (W y x - γ * sum1 (W y) * csum W x / tot W)) / 2) :
    Qraw Bo c / tot W = Q W c γ := by
  have : Bo = fun x y => ((fun x y => W x y - γ * sum1 (W x) * csum W y / tot W) x y
                          + (fun x y => W x y - γ * sum1 (W x) * csum W y / tot W) y x) / 2 := by
    funext x y; exact hB x y
  rw [this, Qraw_symmetrise, Q_eq_Qraw]
  ring

/-- `lemma_Q_from_kernel(Bo, W, c, gamma, s, n)` in the shape of the SMT lemma instance: `s == tsum(W, n)`,
`Bo[x][y] == (K(x,y) + K(y,x)) / 2` with `K(x,y) = W[x][y] - (gamma * (rsum(W,x) * csum(W,y))) / s`
⟹ `QrawB(Bo, c, n) / s == Qmod(W, c, gamma, n)` (no `s != 0`) -/
theorem Q_from_kernel_smt (Bo W : ι → ι → ℝ) (c : ι → ν) (γ s : ℝ) (hs : s = tot W)
    (hB : ∀ x y, Bo x y = ((W x y - (γ * (sum1 (W x) * csum W y)) / s)
                          + (W y x - (γ * (sum1 (W y) * csum W x)) / s)) / 2) :
    Qraw Bo c / s = Q W c γ := by
  subst hs
  apply Q_from_symmetrised_kernel W c γ Bo
  intro x y; rw [hB x y]; ring

end aggcompose2

-- ===== FOURTH BATCH: counting lemma instances (`lemma_flat_count`, `lemma_image_count`, `lemma_tsum_plus_transpose`) =====
-- Encoding: the flat (row-major) position `i` of an `n × n` array denotes the cell `(frow(i,n), fcol(i,n))`; the SMT enumeration
-- `e ↦ (frow(ix[e],n), fcol(ix[e],n))`, `0 ≤ e < k`, is `cell : Fin k → ι × ι` (the range facts `0 ≤ frow, fcol < n` are typing);
-- "without repetition" is `Function.Injective cell`; "every such cell is enumerated" is `hcov`.  `Fintype.card ι` is the SMT `n`
-- (so `n ≥ 0` is built in: see the remark in README.md).

section gencount
open BigOperators Finset
variable {ι : Type} [Fintype ι] [DecidableEq ι]

/-- `lemma_flat_count(ix, n, 'offdiag')`, ℕ form (truncated subtraction; `n ≤ n * n` always) -/
theorem card_offdiag_enum (k : ℕ) (cell : Fin k → ι × ι) (hinj : Function.Injective cell)
    (hoff : ∀ e, (cell e).1 ≠ (cell e).2) (hcov : ∀ x y, x ≠ y → ∃ e, cell e = (x, y)) :
    k = Fintype.card ι * Fintype.card ι - Fintype.card ι := by
  have himg : Finset.image cell univ = (univ : Finset ι).offDiag := by
    ext ⟨x, y⟩
    simp only [mem_image, mem_univ, true_and, mem_offDiag]
    constructor
    · rintro ⟨e, he⟩
      have h := hoff e
      rw [he] at h
      exact h
    · intro h
      exact hcov x y h
  have hc := Finset.card_image_of_injective univ hinj
  rw [himg, Finset.offDiag_card] at hc
  simpa using hc.symm

/-- `lemma_flat_count(ix, n, 'offdiag')`, integer form used by the SMT side: `kf == n*n - n` -/
theorem card_offdiag_enum_int (k : ℕ) (cell : Fin k → ι × ι) (hinj : Function.Injective cell)
    (hoff : ∀ e, (cell e).1 ≠ (cell e).2) (hcov : ∀ x y, x ≠ y → ∃ e, cell e = (x, y)) :
    (k : ℤ) = (Fintype.card ι : ℤ) * (Fintype.card ι : ℤ) - (Fintype.card ι : ℤ) := by
  have h := card_offdiag_enum k cell hinj hoff hcov
  have hle : Fintype.card ι ≤ Fintype.card ι * Fintype.card ι := Nat.le_mul_self _
  rw [h, Nat.cast_sub hle, Nat.cast_mul]

/-- `lemma_flat_count(ix, n, 'upper')`, subtraction-free ℕ form -/
theorem card_upper_enum_nat (n k : ℕ) (cell : Fin k → Fin n × Fin n) (hinj : Function.Injective cell)
    (hup : ∀ e, (cell e).1 < (cell e).2) (hcov : ∀ x y : Fin n, x < y → ∃ e, cell e = (x, y)) :
    2 * k + n = n * n := by
  set U : Finset (Fin n × Fin n) := univ.filter (fun p => p.1 < p.2) with hUdef
  set L : Finset (Fin n × Fin n) := univ.filter (fun p => p.2 < p.1) with hLdef
  have himg : Finset.image cell univ = U := by
    ext ⟨x, y⟩
    simp only [hUdef, mem_image, mem_univ, true_and, mem_filter]
    constructor
    · rintro ⟨e, he⟩
      have h := hup e
      rw [he] at h
      exact h
    · intro h
      exact hcov x y h
  have hU : #U = k := by
    rw [← himg, Finset.card_image_of_injective univ hinj]
    simp
  have hL : #L = #U := by
    apply Finset.card_equiv (Equiv.prodComm _ _)
    intro p
    simp [hUdef, hLdef]
  have hoff : (univ : Finset (Fin n)).offDiag = U ∪ L := by
    ext ⟨x, y⟩
    simp only [hUdef, hLdef, mem_offDiag, mem_univ, true_and, mem_union, mem_filter]
    exact lt_or_lt_iff_ne.symm
  have hdisj : Disjoint U L := by
    rw [Finset.disjoint_left]
    intro p hp hq
    simp only [hUdef, hLdef, mem_filter, mem_univ, true_and] at hp hq
    exact lt_asymm hp hq
  have hc : #((univ : Finset (Fin n)).offDiag) = n * n - n := by
    simp [Finset.offDiag_card]
  rw [hoff, Finset.card_union_of_disjoint hdisj, hL, hU] at hc
  have hle : n ≤ n * n := Nat.le_mul_self n
  generalize n * n = m at hc hle ⊢
  omega

/-- `lemma_flat_count(ix, n, 'upper')`, integer form used by the SMT side: `2 * kf == n*n - n` -/
theorem card_upper_enum (n k : ℕ) (cell : Fin k → Fin n × Fin n) (hinj : Function.Injective cell)
    (hup : ∀ e, (cell e).1 < (cell e).2) (hcov : ∀ x y : Fin n, x < y → ∃ e, cell e = (x, y)) :
    2 * (k : ℤ) = (n : ℤ) * (n : ℤ) - (n : ℤ) := by
  have h := card_upper_enum_nat n k cell hinj hup hcov
  have h' : ((2 * k + n : ℕ) : ℤ) = ((n * n : ℕ) : ℤ) := by rw [h]
  push_cast at h'
  linarith

/-- `lemma_image_count(M, r, c, k, n)`: `k` pairwise distinct cells hold 1, every other cell holds 0 ⟹ the matrix sums to `k` -/
theorem tot_indicator_of_injective_cells (k : ℕ) (cell : Fin k → ι × ι) (hinj : Function.Injective cell)
    (M : ι → ι → ℝ) (hM : ∀ x y, M x y = if ∃ t, cell t = (x, y) then 1 else 0) : tot M = (k : ℝ) := by
  unfold tot
  rw [← Finset.sum_product']
  have hcell : ∀ p ∈ (univ : Finset ι) ×ˢ (univ : Finset ι),
      M p.1 p.2 = if p ∈ Finset.image cell univ then (1 : ℝ) else 0 := by
    rintro ⟨x, y⟩ _
    rw [hM]
    simp
  rw [Finset.sum_congr rfl hcell, Finset.sum_boole]
  have hf : ((univ : Finset ι) ×ˢ (univ : Finset ι)).filter (fun p => p ∈ Finset.image cell univ) = Finset.image cell univ := by
    ext p
    simp
  rw [hf, Finset.card_image_of_injective univ hinj]
  simp

/-- the name used in the docstring of `_sb_lemma_image_count` (SMT `tsum` is `tot`) -/
theorem tsum_indicator_of_injective_cells (k : ℕ) (cell : Fin k → ι × ι) (hinj : Function.Injective cell)
    (M : ι → ι → ℝ) (hM : ∀ x y, M x y = if ∃ t, cell t = (x, y) then 1 else 0) : tot M = (k : ℝ) :=
  tot_indicator_of_injective_cells k cell hinj M hM

/-- `lemma_tsum_plus_transpose(A, S, n)` -/
theorem tot_add_transpose (A S : ι → ι → ℝ) (h : ∀ x y, S x y = A x y + A y x) : tot S = 2 * tot A := by
  unfold tot
  simp only [h, Finset.sum_add_distrib]
  rw [Finset.sum_comm (f := fun x y => A y x)]
  ring

/-- `lemma_image_count(M, r, c, k, n)`, witness form (index rows from a 2-D `np.where`), stated in the SMT shape: the index rows
`r c` are integer-indexed (only `0 ≤ t < k` is looked at), `w` is the where-result's integer-valued index function,
`hit_w(x,y) := 0 ≤ w(x,y) < k ∧ r[w(x,y)] = x ∧ c[w(x,y)] = y`, and `hw` is the extra hypothesis `∀ t < k, hit_w(r[t], c[t])`.
Under `hw`, `hit_w(x,y) ↔ ∃ t < k, r[t] = x ∧ c[t] = y`, so this is a corollary of `tot_indicator_of_injective_cells`. -/
theorem tot_indicator_of_injective_cells_witness (k : ℕ) (r c : ℤ → ι) (w : ι → ι → ℤ)
    (hdist : ∀ t u : ℤ, 0 ≤ t → t < u → u < k → r t ≠ r u ∨ c t ≠ c u)
    (hw : ∀ t : ℤ, 0 ≤ t → t < k → 0 ≤ w (r t) (c t) ∧ w (r t) (c t) < k ∧ r (w (r t) (c t)) = r t ∧ c (w (r t) (c t)) = c t)
    (M : ι → ι → ℝ)
    (hM : ∀ x y, M x y = if 0 ≤ w x y ∧ w x y < k ∧ r (w x y) = x ∧ c (w x y) = y then 1 else 0) : tot M = (k : ℝ) := by
  let cell : Fin k → ι × ι := fun t => (r (t.val : ℤ), c (t.val : ℤ))
  have hcell : ∀ t : Fin k, cell t = (r (t.val : ℤ), c (t.val : ℤ)) := fun _ => rfl
  have hne : ∀ t u : Fin k, t.val < u.val → cell t ≠ cell u := by
    intro t u htu he
    rw [hcell, hcell, Prod.mk.injEq] at he
    have hu : ((u.val : ℕ) : ℤ) < k := by exact_mod_cast u.isLt
    rcases hdist t.val u.val (by positivity) (by exact_mod_cast htu) hu with h | h
    · exact h he.1
    · exact h he.2
  have hinj : Function.Injective cell := by
    intro t u he
    rcases lt_trichotomy t.val u.val with h | h | h
    · exact absurd he (hne t u h)
    · exact Fin.ext h
    · exact absurd he.symm (hne u t h)
  apply tot_indicator_of_injective_cells k cell hinj M
  intro x y
  rw [hM x y]
  have hiff : (0 ≤ w x y ∧ w x y < k ∧ r (w x y) = x ∧ c (w x y) = y) ↔ ∃ t, cell t = (x, y) := by
    constructor
    · rintro ⟨h0, hk, hr, hc⟩
      obtain ⟨m, hm⟩ := Int.eq_ofNat_of_zero_le h0
      have hmk : m < k := by rw [hm] at hk; exact_mod_cast hk
      refine ⟨⟨m, hmk⟩, ?_⟩
      rw [hcell]
      simp only [← hm, hr, hc]
    · rintro ⟨t, ht⟩
      rw [hcell, Prod.mk.injEq] at ht
      have ht0 : (0 : ℤ) ≤ (t.val : ℤ) := by positivity
      have htk : ((t.val : ℕ) : ℤ) < k := by exact_mod_cast t.isLt
      have h := hw t.val ht0 htk
      rw [ht.1, ht.2] at h
      exact h
  by_cases h : 0 ≤ w x y ∧ w x y < k ∧ r (w x y) = x ∧ c (w x y) = y
  · rw [if_pos h, if_pos (hiff.mp h)]
  · rw [if_neg h, if_neg (fun h' => h (hiff.mpr h'))]

/-- `lemma_tsum_add(A, B, S, n)` -/
theorem tot_add (A B S : ι → ι → ℝ) (h : ∀ x y, S x y = A x y + B x y) : tot S = tot A + tot B := by
  unfold tot
  simp only [h, Finset.sum_add_distrib]

/-- `lemma_tsum_int(M, n)`: a matrix of integers has an integer sum (z3 `IsInt(t)` is `∃ z : ℤ, t = z`) -/
theorem tot_int (M : ι → ι → ℝ) (h : ∀ x y, ∃ z : ℤ, M x y = (z : ℝ)) : ∃ z : ℤ, tot M = (z : ℝ) := by
  choose Z hZ using h
  refine ⟨∑ x, ∑ y, Z x y, ?_⟩
  unfold tot
  push_cast
  simp only [hZ]

/-- `lemma_full_offdiag(M, n)`: 1 off the diagonal, 0 on it ⟹ the sum is `n*n - n` (`n = Fintype.card ι`; over ℝ, equal to the SMT
`ToReal(n*n - n)` because the integer-to-real cast is a ring homomorphism) -/
theorem tot_offdiag_ones (M : ι → ι → ℝ) (h : ∀ x y, M x y = if x ≠ y then 1 else 0) :
    tot M = (Fintype.card ι : ℝ) * (Fintype.card ι : ℝ) - (Fintype.card ι : ℝ) := by
  unfold tot
  have hrow : ∀ x, ∑ y, M x y = (Fintype.card ι : ℝ) - 1 := by
    intro x
    have he : ∀ y, M x y = 1 - (if x = y then (1 : ℝ) else 0) := by
      intro y
      rw [h]
      by_cases hxy : x = y
      · simp [hxy]
      · simp [hxy]
    simp only [he, Finset.sum_sub_distrib, Finset.sum_ite_eq, mem_univ, if_true, Finset.sum_const, Finset.card_univ,
      nsmul_eq_mul, mul_one]
  simp only [hrow, Finset.sum_const, Finset.card_univ, nsmul_eq_mul]
  ring

end gencount

-- ===== FIFTH BATCH: sums along a node sequence (`lemma_pathsum`, `lemma_pathsum_append`) =====
-- The SMT `pathsum(M, p, k)` is uninterpreted; these are its defining equations for the intended reading
-- `Σ_{t < k-1} M[p[t]][p[t+1]]` (k nodes, k-1 steps).  `p : ℕ → ι` is the integer-indexed node list (only `0 ≤ t < k` is looked at:
-- `pathsum_congr`), `Store(p, k, v)` is `Function.update p k v`.  `ι` is an arbitrary type here (no finiteness needed; `ι = ℤ`
-- is the untyped SMT reading where `M` is indexed by all integers).

section pathsum
open BigOperators Finset
variable {ι : Type}

noncomputable def pathsum (M : ι → ι → ℝ) (p : ℕ → ι) (k : ℕ) : ℝ := ∑ t ∈ Finset.range (k - 1), M (p t) (p (t + 1))

/-- `lemma_pathsum`, first conjunct: a one-node path has sum 0 -/
theorem pathsum_one (M : ι → ι → ℝ) (p : ℕ → ι) : pathsum M p 1 = 0 := by
  simp [pathsum]

/-- the sum only looks at the first `k` entries of the sequence -/
theorem pathsum_congr (M : ι → ι → ℝ) (p p' : ℕ → ι) (k : ℕ) (h : ∀ t, t < k → p t = p' t) :
    pathsum M p k = pathsum M p' k := by
  unfold pathsum
  apply Finset.sum_congr rfl
  intro t ht
  have ht' : t < k - 1 := Finset.mem_range.mp ht
  rw [h t (by omega), h (t + 1) (by omega)]

/-- `lemma_pathsum` second conjunct / `lemma_pathsum_append`:
`k >= 1 → pathsum(M, Store(p, k, v), k+1) == pathsum(M, p, k) + M[p[k-1]][v]` -/
theorem pathsum_append (M : ι → ι → ℝ) (p : ℕ → ι) (k : ℕ) (hk : 1 ≤ k) (v : ι) :
    pathsum M (Function.update p k v) (k + 1) = pathsum M p k + M (p (k - 1)) v := by
  obtain ⟨j, rfl⟩ : ∃ j, k = j + 1 := ⟨k - 1, by omega⟩
  have hpre : pathsum M (Function.update p (j + 1) v) (j + 1) = pathsum M p (j + 1) :=
    pathsum_congr M _ p (j + 1) (fun t ht => Function.update_of_ne (by omega) v p)
  rw [← hpre]
  unfold pathsum
  simp only [Nat.add_sub_cancel]
  rw [Finset.sum_range_succ]
  have hj : Function.update p (j + 1) v j = p j := Function.update_of_ne (by omega) v p
  rw [Function.update_self, hj]

end pathsum

-- ===== SIXTH BATCH: matrix product and matrix powers as values (`lemma_mpw`) =====
-- The SMT `mdot(A, B)` (matrix product as a value) and `mpw(G, d)` (d-th power) are uninterpreted; `lemma_mpw(G, d)` states
-- `mpw(G,1) == G` and, for `d >= 1`, `mpw(G,d+1) == mdot(mpw(G,d), G) == mdot(G, mpw(G,d))`.  Here they are definitions on
-- `ι → ι → ℝ` (the in-range cells); `mpw G 0` is the identity matrix (outside the SMT equations' range `d ≥ 1`), which makes the
-- three equations hold for every `d`.  `mpw_walk` links the value semantics to `walk` (support of a power of a non-negative matrix).

section mpw
open BigOperators Finset
variable {ι : Type} [Fintype ι] [DecidableEq ι]

noncomputable def mdot (A B : ι → ι → ℝ) : ι → ι → ℝ := fun x y => ∑ z, A x z * B z y

noncomputable def mpw (G : ι → ι → ℝ) : ℕ → ι → ι → ℝ
  | 0 => fun x y => if x = y then 1 else 0
  | d + 1 => mdot (mpw G d) G

theorem mdot_apply (A B : ι → ι → ℝ) (x y : ι) : mdot A B x y = ∑ z, A x z * B z y := rfl

theorem mpw_zero (G : ι → ι → ℝ) : mpw G 0 = fun x y => if x = y then 1 else 0 := rfl

theorem mdot_assoc (A B C : ι → ι → ℝ) : mdot (mdot A B) C = mdot A (mdot B C) := by
  funext x y
  simp only [mdot, Finset.sum_mul, Finset.mul_sum]
  rw [Finset.sum_comm]
  apply Finset.sum_congr rfl
  intro w _
  apply Finset.sum_congr rfl
  intro z _
  ring

theorem mdot_id_left (G : ι → ι → ℝ) : mdot (fun x y => if x = y then 1 else 0) G = G := by
  funext x y
  simp [mdot]

theorem mdot_id_right (G : ι → ι → ℝ) : mdot G (fun x y => if x = y then 1 else 0) = G := by
  funext x y
  simp [mdot]

/-- `lemma_mpw`, first conjunct: `mpw(G, 1) == G` -/
theorem mpw_one (G : ι → ι → ℝ) : mpw G 1 = G := by
  show mdot (mpw G 0) G = G
  rw [mpw_zero, mdot_id_left]

/-- `lemma_mpw`: `d >= 1 → mpw(G, d+1) == mdot(mpw(G, d), G)` (holds for every `d` with `mpw G 0` the identity) -/
theorem mpw_succ (G : ι → ι → ℝ) (d : ℕ) (_hd : 1 ≤ d) : mpw G (d + 1) = mdot (mpw G d) G := rfl

/-- `mpw G (d+1) = G · G^d` for every `d` -/
theorem mpw_succ_left' (G : ι → ι → ℝ) (d : ℕ) : mpw G (d + 1) = mdot G (mpw G d) := by
  induction d with
  | zero => rw [mpw_one, mpw_zero, mdot_id_right]
  | succ d ih =>
    show mdot (mpw G (d + 1)) G = mdot G (mdot (mpw G d) G)
    rw [ih, mdot_assoc]

/-- `lemma_mpw`: `d >= 1 → mpw(G, d+1) == mdot(G, mpw(G, d))` -/
theorem mpw_succ_left (G : ι → ι → ℝ) (d : ℕ) (_hd : 1 ≤ d) : mpw G (d + 1) = mdot G (mpw G d) :=
  mpw_succ_left' G d

theorem mpw_nonneg (G : ι → ι → ℝ) (hG : ∀ x y, 0 ≤ G x y) (d : ℕ) (x y : ι) : 0 ≤ mpw G d x y := by
  induction d generalizing x y with
  | zero =>
    rw [mpw_zero]
    by_cases h : x = y
    · simp [h]
    · simp [h]
  | succ d ih => exact dot_nonneg (mpw G d) G ih hG x y

/-- for an entrywise non-negative `G`, the support of `G^d` is the relation "there is a walk of exactly `d` edges"
(every `d`; the SMT `walk` and `mpw` are only constrained for `d ≥ 1`) -/
theorem mpw_walk (G : ι → ι → ℝ) (hG : ∀ x y, 0 ≤ G x y) (d : ℕ) (x y : ι) : mpw G d x y ≠ 0 ↔ walk G x y d := by
  induction d generalizing y with
  | zero =>
    rw [mpw_zero, walk_zero]
    by_cases h : x = y
    · simp [h]
    · simp [h]
  | succ d ih =>
    rw [walk_succ]
    show (∑ z, mpw G d x z * G z y) ≠ 0 ↔ _
    rw [dot_support (mpw G d) G (mpw_nonneg G hG d) hG x y]
    constructor
    · rintro ⟨z, h1, h2⟩
      exact ⟨z, (ih z).mp h1, h2⟩
    · rintro ⟨z, h1, h2⟩
      exact ⟨z, (ih z).mpr h1, h2⟩

end mpw

-- ===== SEVENTH BATCH: shortest walks split into a shortest prefix and a suffix; closed node sets contain everything reachable =====
-- (`lemma_walks` split clause with the suffix conjunct, `lemma_reach_closed`)

section bfs
variable {ι : Type} [Fintype ι] [DecidableEq ι]

/-- `lemma_walks` split (SMT Skolem function `splitz`), with the suffix: `k >= 1 ∧ sdist(G,x,y) > k →
  z != x ∧ walk(G,x,z,k) ∧ sdist(G,x,z) == k ∧ walk(G,z,y,sdist(G,x,y) - k)`: the node at position `k` of a shortest walk splits it
into a shortest prefix of `k` connections and a suffix of the remaining connections (strengthens `sdist_split`) -/
theorem sdist_split_suffix (G : ι → ι → ℝ) (x y : ι) (k : ℕ) (hk : 1 ≤ k) (h : k < sdist G x y) :
    ∃ z, z ≠ x ∧ walk G x z k ∧ sdist G x z = k ∧ walk G z y (sdist G x y - k) := by
  have hd : 1 ≤ sdist G x y := by omega
  have hw := walk_sdist G x y hd
  obtain ⟨b, hb⟩ : ∃ b, sdist G x y = k + b := ⟨sdist G x y - k, by omega⟩
  have hb1 : 1 ≤ b := by omega
  have hbk : sdist G x y - k = b := by omega
  rw [hb, walk_add] at hw
  obtain ⟨z, hz1, hz2⟩ := hw
  refine ⟨z, ?_, hz1, ?_, ?_⟩
  · intro hzx
    rw [hzx] at hz2
    have := (sdist_le G x y b hz2 hb1).2
    omega
  · obtain ⟨h1, h2⟩ := sdist_le G x z k hz1 hk
    by_contra hne
    have hw' := walk_sdist G x z h1
    have hcat := walk_concat G x z y _ _ hw' hz2
    have := (sdist_le G x y _ hcat (by omega)).2
    omega
  · rw [hbk]
    exact hz2

/-- a node set that contains `s` and is closed under following connections contains the end of every walk from `s` -/
theorem walk_closed (G : ι → ι → ℝ) (P : ι → Prop) (s : ι) (hs : P s) (hcl : ∀ v w, P v → G v w ≠ 0 → P w) :
    ∀ m w, walk G s w m → P w := by
  intro m
  induction m with
  | zero =>
    intro w hw
    rw [walk_zero] at hw
    rw [← hw]
    exact hs
  | succ m ih =>
    intro w hw
    obtain ⟨z, hz, hG⟩ := (walk_succ G s w m).mp hw
    exact hcl z w (ih z hz) hG

/-- `lemma_reach_closed(G, s, P, n)`: a node set `P` that contains `s` and is closed under following connections contains every
node reachable from `s` (`sdist(G,s,w) >= 1`) -/
theorem reach_closed (G : ι → ι → ℝ) (P : ι → Prop) (s : ι) (hs : P s) (hcl : ∀ v w, P v → G v w ≠ 0 → P w) :
    ∀ w, 1 ≤ sdist G s w → P w :=
  fun w hw => walk_closed G P s hs hcl (sdist G s w) w (walk_sdist G s w hw)

/-- `lemma_nonneg_sum_zero(M, n)`, first conjunct: in an entrywise non-negative matrix a column whose sum is 0 consists of zeros -/
theorem colsum_zero_of_nonneg (M : ι → ι → ℝ) (hM : ∀ x y, 0 ≤ M x y) (y : ι) (h : csum M y = 0) : ∀ x, M x y = 0 := by
  intro x
  unfold csum at h
  exact (Finset.sum_eq_zero_iff_of_nonneg (fun x _ => hM x y)).mp h x (Finset.mem_univ x)

/-- `lemma_nonneg_sum_zero(M, n)`, second conjunct: a row whose sum is 0 consists of zeros -/
theorem rowsum_zero_of_nonneg (M : ι → ι → ℝ) (hM : ∀ x y, 0 ≤ M x y) (x : ι) (h : sum1 (M x) = 0) : ∀ y, M x y = 0 := by
  intro y
  unfold sum1 at h
  exact (Finset.sum_eq_zero_iff_of_nonneg (fun y _ => hM x y)).mp h y (Finset.mem_univ y)

/-- `lemma_walk_ends(G, n)`, first half (SMT Skolem function `walkout`): a walk of `m ≥ 1` connections from `x` starts with a
connection out of `x` -/
theorem walk_first_edge (G : ι → ι → ℝ) (x y : ι) (m : ℕ) (hm : 1 ≤ m) (h : walk G x y m) : ∃ z, G x z ≠ 0 := by
  obtain ⟨j, rfl⟩ : ∃ j, m = j + 1 := ⟨m - 1, by omega⟩
  obtain ⟨z, hz, _⟩ := (walk_succ_prefix G x y j).mp h
  exact ⟨z, hz⟩

/-- `lemma_walk_ends(G, n)`, second half (SMT Skolem function `walkin`): a walk of `m ≥ 1` connections to `y` ends with a
connection into `y` -/
theorem walk_last_edge (G : ι → ι → ℝ) (x y : ι) (m : ℕ) (hm : 1 ≤ m) (h : walk G x y m) : ∃ z, G z y ≠ 0 := by
  obtain ⟨j, rfl⟩ : ∃ j, m = j + 1 := ⟨m - 1, by omega⟩
  obtain ⟨z, _, hz⟩ := (walk_succ G x y j).mp h
  exact ⟨z, hz⟩

end bfs

-- ===== NINTH BATCH: sum of squared node-to-module sums (`lemma_msq`, `lemma_modsum_def`; participation coefficient, C14) =====
-- The SMT `msq(W, c, x, k, n) = Σ_{m<k} modsum(W, c, x, m, n)^2` is uninterpreted; SMT labels are `m + 1` for the 0-based module `m`.
-- Here labels are natural numbers (`c : ι → ℕ`), `modsumN W c x m` is the file's `modsum W c x (m + 1)` (`modsumN_eq_modsum`).
-- `msq_relabel` is the C14 point: the total over all used labels depends on the labels only through the partition.

section participation
open BigOperators Finset
variable {ι : Type} [Fintype ι] [DecidableEq ι]

/-- node-to-module sum for the 0-based module `m` (SMT label `m + 1`) -/
noncomputable def modsumN (W : ι → ι → ℝ) (c : ι → ℕ) (x : ι) (m : ℕ) : ℝ := ∑ y, if c y = m + 1 then W x y else 0

noncomputable def msq (W : ι → ι → ℝ) (c : ι → ℕ) (x : ι) (k : ℕ) : ℝ := ∑ m ∈ Finset.range k, (modsumN W c x m) ^ 2

theorem modsumN_eq_modsum (W : ι → ι → ℝ) (c : ι → ℕ) (x : ι) (m : ℕ) : modsumN W c x m = modsum W c x (m + 1) := rfl

/-- `lemma_msq`, first conjunct: `msq(W, c, x, 0, n) == 0` -/
theorem msq_zero (W : ι → ι → ℝ) (c : ι → ℕ) (x : ι) : msq W c x 0 = 0 := by
  simp [msq]

/-- `lemma_msq`, second conjunct: `k >= 0 → msq(W,c,x,k+1,n) == msq(W,c,x,k,n) + modsum(W,c,x,k,n)^2` -/
theorem msq_succ (W : ι → ι → ℝ) (c : ι → ℕ) (x : ι) (k : ℕ) :
    msq W c x (k + 1) = msq W c x k + (modsumN W c x k) ^ 2 := by
  unfold msq
  rw [Finset.sum_range_succ]

/-- the same with the square written as a product, as the SMT instance does -/
theorem msq_succ_mul (W : ι → ι → ℝ) (c : ι → ℕ) (x : ι) (k : ℕ) :
    msq W c x (k + 1) = msq W c x k + modsumN W c x k * modsumN W c x k := by
  rw [msq_succ, sq]

/-- `lemma_modsum_def(R, W, c, m, n)`: the row sums of the masked matrix are the node-to-module sums -/
theorem modsum_def_row (R W : ι → ι → ℝ) (c : ι → ℕ) (m : ℕ) (h : ∀ x y, R x y = if c y = m + 1 then W x y else 0) :
    ∀ x, sum1 (R x) = modsumN W c x m := by
  intro x
  unfold sum1 modsumN
  exact Finset.sum_congr rfl (fun y _ => h x y)

/-- label-free characterisation: if all labels lie in `1..K`, the sum of the squared node-to-module sums over the `K` modules is
`∑ y, W x y * (sum of W x z over the z in the same class as y)`, an expression in the partition only -/
theorem msq_eq_pairs (W : ι → ι → ℝ) (c : ι → ℕ) (x : ι) (K : ℕ) (hc : ∀ y, 1 ≤ c y ∧ c y ≤ K) :
    msq W c x K = ∑ y, W x y * ∑ z, if c z = c y then W x z else 0 := by
  unfold msq
  have h1 : ∀ m, (modsumN W c x m) ^ 2 = ∑ y, (if c y = m + 1 then W x y * modsumN W c x m else 0) := by
    intro m
    rw [sq]
    nth_rewrite 1 [modsumN]
    rw [Finset.sum_mul]
    apply Finset.sum_congr rfl
    intro y _
    by_cases hy : c y = m + 1
    · rw [if_pos hy, if_pos hy]
    · rw [if_neg hy, if_neg hy, zero_mul]
  simp only [h1]
  rw [Finset.sum_comm]
  apply Finset.sum_congr rfl
  intro y _
  have hy := hc y
  have hcy : c y = c y - 1 + 1 := by omega
  rw [Finset.sum_eq_single (c y - 1)]
  · rw [if_pos hcy]
    congr 1
    unfold modsumN
    rw [← hcy]
  · intro m _ hm
    rw [if_neg]
    intro h
    apply hm
    omega
  · intro h
    exfalso
    apply h
    rw [Finset.mem_range]
    omega

/-- C14: the total over all labels depends on the labels only through the partition (labels in `1..K₁` resp. `1..K₂`, used or not;
same equality pattern) -/
theorem msq_relabel (W : ι → ι → ℝ) (c₁ c₂ : ι → ℕ) (x : ι) (K₁ K₂ : ℕ)
    (h1 : ∀ y, 1 ≤ c₁ y ∧ c₁ y ≤ K₁) (h2 : ∀ y, 1 ≤ c₂ y ∧ c₂ y ≤ K₂) (hpat : ∀ y z, c₁ y = c₁ z ↔ c₂ y = c₂ z) :
    msq W c₁ x K₁ = msq W c₂ x K₂ := by
  rw [msq_eq_pairs W c₁ x K₁ h1, msq_eq_pairs W c₂ x K₂ h2]
  apply Finset.sum_congr rfl
  intro y _
  congr 1
  apply Finset.sum_congr rfl
  intro z _
  by_cases h : c₁ z = c₁ y
  · rw [if_pos h, if_pos ((hpat z y).mp h)]
  · rw [if_neg h, if_neg (fun h' => h ((hpat z y).mpr h'))]

end participation

-- NOT PROVED HERE: nothing was left out; every quantified fact of `spec_axioms()` and every `lemma_*` instance of
-- engine/pyvc/core.py has a theorem above (see README.md for the table).  Three SMT axioms are not theorems but
-- definitions / typing facts of this formalisation:
--   * `F(0) == 0`                      : an assumption on the uninterpreted statistic `F` (no theorem above needs it);
--   * `ixperm(M,p)[x][y] == M[p[x]][p[y]]` : the definition `ixperm`;
--   * `isperm(p,n) ∧ 0≤x<n → 0≤p[x]<n` : `σ : Equiv.Perm ι` maps `ι` to `ι` by its type.
--   * `sdist(G,x,y) >= 0`, range facts of the Skolem functions `walkmid walkfirst splitz dotwit` : typing (`ℕ`, `z : ι`).
-- (second batch: singletons, Qrawg / QrawB gain, relabel_g, umul linearity, walks incl. split and pigeonhole, dot support:
--  all proved.)
-- (third batch: aggregation composes — `agg_comp`, `tot_agg`, `Q_agg_comp`, `agg_compose_smt` for `lemma_agg_compose`: all proved.)
-- (third batch, explicit divisor: `Qrawg_agg_comp`, `agg_compose_g_smt`, `qg_from_aggregate(_smt)`, `Qrawg_def_sum(_symm)`: all proved, any `sd`.)
-- (symmetrised kernel of community_louvain: `Qraw_symmetrise`, `Q_from_symmetrised_kernel`, `Q_from_kernel_smt`: all proved, no `s != 0`.)
-- (fourth batch: counting — `card_offdiag_enum(_int)`, `card_upper_enum(_nat)` for `lemma_flat_count`, `tot_indicator_of_injective_cells`
--  for `lemma_image_count`, `tot_add_transpose` for `lemma_tsum_plus_transpose`: all proved; `Fintype.card ι` is the SMT `n`, hence `n ≥ 0`.)
-- (fourth batch, continued: `tot_indicator_of_injective_cells_witness` (where-index form of `lemma_image_count`), `tot_add` for
--  `lemma_tsum_add`, `tot_int` for `lemma_tsum_int`, `tot_offdiag_ones` for `lemma_full_offdiag`: all proved.)
-- (fifth batch: definition `pathsum`; `pathsum_one`, `pathsum_append` for `lemma_pathsum` / `lemma_pathsum_append`, `pathsum_congr`: all proved.)
-- (sixth batch: definitions `mdot`, `mpw`; `mpw_one`, `mpw_succ`, `mpw_succ_left` for `lemma_mpw` (via `mdot_assoc`, `mdot_id_left/right`),
--  `mpw_nonneg`, `mpw_walk` (support of a power of a non-negative matrix = walks): all proved.)
-- (seventh batch: `sdist_split_suffix` (split clause of `lemma_walks` with the suffix conjunct), `walk_closed`, `reach_closed` for
--  `lemma_reach_closed`: all proved.)
-- (eighth batch, in `section bfs`: `colsum_zero_of_nonneg`, `rowsum_zero_of_nonneg` for `lemma_nonneg_sum_zero`; `walk_first_edge`,
--  `walk_last_edge` for `lemma_walk_ends`: all proved.)
-- (ninth batch: definitions `modsumN`, `msq`; `msq_zero`, `msq_succ` (`msq_succ_mul`) for `lemma_msq`, `modsum_def_row` for `lemma_modsum_def`,
--  `msq_eq_pairs`, `msq_relabel` (C14: dependence on the partition only): all proved.)

-- ===== TENTH BATCH: weighted walks, the weighted distance `wd` and the mathematical core of Dijkstra's algorithm =====
-- Setting: `G` entrywise non-negative; there is a connection `v → w` iff `G v w ≠ 0` and its length is `G v w` (hence `> 0`).
-- `wwalk G x y m ℓ`: a walk of `m` connections from `x` to `y` of total length `ℓ`; `reachw`: some walk (the empty one included);
-- `wd G x y`: the infimum (in fact the minimum, `wd_attained`) of the lengths of all walks from `x` to `y`.
section dijkstra
variable {ι : Type} [Fintype ι] [DecidableEq ι]

/-- `wwalk G x y m ℓ`: there is a walk of exactly `m` connections from `x` to `y` whose connection lengths add up to `ℓ` -/
def wwalk (G : ι → ι → ℝ) (x : ι) : ι → ℕ → ℝ → Prop
  | y, 0, ℓ => x = y ∧ ℓ = 0
  | y, m + 1, ℓ => ∃ z ℓ', wwalk G x z m ℓ' ∧ G z y ≠ 0 ∧ ℓ = ℓ' + G z y

/-- `reachw G x y`: `y` can be reached from `x` (by the empty walk if `x = y`) -/
def reachw (G : ι → ι → ℝ) (x y : ι) : Prop := ∃ m ℓ, wwalk G x y m ℓ

/-- `wd G x y`: the weighted distance, the infimum of the lengths of the walks from `x` to `y` (meaningful when `reachw G x y`) -/
noncomputable def wd (G : ι → ι → ℝ) (x y : ι) : ℝ := sInf {ℓ | ∃ m, wwalk G x y m ℓ}

theorem wwalk_zero (G : ι → ι → ℝ) (x y : ι) (ℓ : ℝ) : wwalk G x y 0 ℓ ↔ x = y ∧ ℓ = 0 := Iff.rfl

theorem wwalk_succ (G : ι → ι → ℝ) (x y : ι) (m : ℕ) (ℓ : ℝ) :
    wwalk G x y (m + 1) ℓ ↔ ∃ z ℓ', wwalk G x z m ℓ' ∧ G z y ≠ 0 ∧ ℓ = ℓ' + G z y := Iff.rfl

theorem wwalk_refl (G : ι → ι → ℝ) (x : ι) : wwalk G x x 0 0 := ⟨rfl, rfl⟩

theorem reachw_refl (G : ι → ι → ℝ) (x : ι) : reachw G x x := ⟨0, 0, wwalk_refl G x⟩

/-- one connection -/
theorem wwalk_one (G : ι → ι → ℝ) (x y : ι) (h : G x y ≠ 0) : wwalk G x y 1 (G x y) :=
  (wwalk_succ G x y 0 _).mpr ⟨x, 0, wwalk_refl G x, h, by ring⟩

/-- the length of a walk is non-negative -/
theorem wwalk_nonneg (G : ι → ι → ℝ) (hG : ∀ x y, 0 ≤ G x y) (x : ι) :
    ∀ m y ℓ, wwalk G x y m ℓ → 0 ≤ ℓ := by
  intro m
  induction m with
  | zero =>
    intro y ℓ h
    rw [wwalk_zero] at h
    rw [h.2]
  | succ m ih =>
    intro y ℓ h
    obtain ⟨z, ℓ', hz, _, hl⟩ := (wwalk_succ G x y m ℓ).mp h
    have := ih z ℓ' hz
    have := hG z y
    linarith

/-- forgetting the length: a weighted walk is a walk of the file's unweighted `walk` -/
theorem wwalk_walk (G : ι → ι → ℝ) (x : ι) : ∀ m y ℓ, wwalk G x y m ℓ → walk G x y m := by
  intro m
  induction m with
  | zero =>
    intro y ℓ h
    exact h.1
  | succ m ih =>
    intro y ℓ h
    obtain ⟨z, ℓ', hz, hzy, _⟩ := (wwalk_succ G x y m ℓ).mp h
    exact (walk_succ G x y m).mpr ⟨z, ih z ℓ' hz, hzy⟩

/-- every walk has a length -/
theorem walk_wwalk (G : ι → ι → ℝ) (x : ι) : ∀ m y, walk G x y m → ∃ ℓ, wwalk G x y m ℓ := by
  intro m
  induction m with
  | zero =>
    intro y h
    exact ⟨0, h, rfl⟩
  | succ m ih =>
    intro y h
    obtain ⟨z, hz, hzy⟩ := (walk_succ G x y m).mp h
    obtain ⟨ℓ', hl⟩ := ih z hz
    exact ⟨ℓ' + G z y, (wwalk_succ G x y m _).mpr ⟨z, ℓ', hl, hzy, rfl⟩⟩

/-- concatenation of weighted walks: connection counts and lengths add -/
theorem wwalk_concat (G : ι → ι → ℝ) (x z : ι) (a : ℕ) (ℓ₁ : ℝ) (h1 : wwalk G x z a ℓ₁) :
    ∀ b y ℓ₂, wwalk G z y b ℓ₂ → wwalk G x y (a + b) (ℓ₁ + ℓ₂) := by
  intro b
  induction b with
  | zero =>
    intro y ℓ₂ h2
    rw [wwalk_zero] at h2
    rw [← h2.1, h2.2, add_zero, add_zero]
    exact h1
  | succ b ih =>
    intro y ℓ₂ h2
    obtain ⟨w, ℓ', hw, hwy, hl⟩ := (wwalk_succ G z y b ℓ₂).mp h2
    rw [← Nat.add_assoc]
    exact (wwalk_succ G x y (a + b) _).mpr ⟨w, ℓ₁ + ℓ', ih w ℓ' hw, hwy, by rw [hl]; ring⟩

/-- splitting a weighted walk of `a + b` connections after `a` connections -/
theorem wwalk_split (G : ι → ι → ℝ) (x : ι) (a : ℕ) :
    ∀ b y ℓ, wwalk G x y (a + b) ℓ → ∃ z ℓ₁ ℓ₂, wwalk G x z a ℓ₁ ∧ wwalk G z y b ℓ₂ ∧ ℓ = ℓ₁ + ℓ₂ := by
  intro b
  induction b with
  | zero =>
    intro y ℓ h
    exact ⟨y, ℓ, 0, h, wwalk_refl G y, by ring⟩
  | succ b ih =>
    intro y ℓ h
    rw [← Nat.add_assoc] at h
    obtain ⟨w, ℓ', hw, hwy, hl⟩ := (wwalk_succ G x y (a + b) ℓ).mp h
    obtain ⟨z, ℓ₁, ℓ₂, hz1, hz2, hl'⟩ := ih w ℓ' hw
    exact ⟨z, ℓ₁, ℓ₂ + G w y, hz1, (wwalk_succ G z y b _).mpr ⟨w, ℓ₂, hz2, hwy, rfl⟩, by rw [hl, hl']; ring⟩

/-- (D5) weighted reachability is reachability by the file's unweighted walks (any number of connections, `0` included) -/
theorem reachw_iff_walk (G : ι → ι → ℝ) (x y : ι) : reachw G x y ↔ ∃ m, walk G x y m := by
  constructor
  · rintro ⟨m, ℓ, h⟩
    exact ⟨m, wwalk_walk G x m y ℓ h⟩
  · rintro ⟨m, h⟩
    obtain ⟨ℓ, hl⟩ := walk_wwalk G x m y h
    exact ⟨m, ℓ, hl⟩

/-- (D5) `reachw(G,x,y) ↔ x == y ∨ sdist(G,x,y) >= 1` -/
theorem reachw_iff_sdist (G : ι → ι → ℝ) (x y : ι) : reachw G x y ↔ x = y ∨ 1 ≤ sdist G x y := by
  rw [reachw_iff_walk]
  constructor
  · rintro ⟨m, h⟩
    rcases Nat.eq_zero_or_pos m with hm | hm
    · left
      rw [hm] at h
      exact h
    · right
      exact (sdist_le G x y m h hm).1
  · rintro (h | h)
    · exact ⟨0, h⟩
    · exact ⟨sdist G x y, walk_sdist G x y h⟩

/-- (D5, second form) `reachw(G,x,y) ↔ x == y ∨ ∃ m ≥ 1, walk(G,x,y,m)` -/
theorem reachw_iff_walk_pos (G : ι → ι → ℝ) (x y : ι) : reachw G x y ↔ x = y ∨ ∃ m, 1 ≤ m ∧ walk G x y m := by
  rw [reachw_iff_sdist]
  constructor
  · rintro (h | h)
    · exact Or.inl h
    · exact Or.inr ⟨sdist G x y, h, walk_sdist G x y h⟩
  · rintro (h | ⟨m, hm, h⟩)
    · exact Or.inl h
    · exact Or.inr (sdist_le G x y m h hm).1

private lemma wlen_bdd (G : ι → ι → ℝ) (hG : ∀ x y, 0 ≤ G x y) (x y : ι) :
    BddBelow {ℓ | ∃ m, wwalk G x y m ℓ} :=
  ⟨0, fun ℓ ⟨m, h⟩ => wwalk_nonneg G hG x m y ℓ h⟩

/-- the weighted distance is a lower bound of the walk lengths -/
theorem wd_le (G : ι → ι → ℝ) (hG : ∀ x y, 0 ≤ G x y) (x y : ι) (m : ℕ) (ℓ : ℝ) (h : wwalk G x y m ℓ) :
    wd G x y ≤ ℓ :=
  csInf_le (wlen_bdd G hG x y) ⟨m, h⟩

/-- the weighted distance is the greatest lower bound of the walk lengths (needs a walk) -/
theorem le_wd (G : ι → ι → ℝ) (x y : ι) (c : ℝ) (hr : reachw G x y) (h : ∀ m ℓ, wwalk G x y m ℓ → c ≤ ℓ) :
    c ≤ wd G x y := by
  obtain ⟨m, ℓ, hw⟩ := hr
  exact le_csInf ⟨ℓ, m, hw⟩ (fun ℓ' ⟨m', h'⟩ => h m' ℓ' h')

/-- ε-characterisation: below `wd + ε` there is a walk -/
theorem wd_approx (G : ι → ι → ℝ) (x y : ι) (hr : reachw G x y) (ε : ℝ) (hε : 0 < ε) :
    ∃ m ℓ, wwalk G x y m ℓ ∧ ℓ < wd G x y + ε := by
  obtain ⟨m, ℓ, hw⟩ := hr
  have hne : ({ℓ | ∃ m, wwalk G x y m ℓ} : Set ℝ).Nonempty := ⟨ℓ, m, hw⟩
  obtain ⟨ℓ', ⟨m', h'⟩, hlt⟩ := exists_lt_of_csInf_lt hne (show sInf {ℓ | ∃ m, wwalk G x y m ℓ} < wd G x y + ε by
    unfold wd; linarith)
  exact ⟨m', ℓ', h', hlt⟩

/-- (D0) `reachw(G,x,y) → wd(G,x,y) >= 0` -/
theorem wd_nonneg (G : ι → ι → ℝ) (hG : ∀ x y, 0 ≤ G x y) (x y : ι) (hr : reachw G x y) : 0 ≤ wd G x y :=
  le_wd G x y 0 hr (fun m ℓ h => wwalk_nonneg G hG x m y ℓ h)

/-- (D0) `wd(G,x,x) == 0` -/
theorem wd_self (G : ι → ι → ℝ) (hG : ∀ x y, 0 ≤ G x y) (x : ι) : wd G x x = 0 :=
  le_antisymm (wd_le G hG x x 0 0 (wwalk_refl G x)) (wd_nonneg G hG x x (reachw_refl G x))

/-- (D2) relaxation: `reachw(G,x,v) ∧ G[v][w] != 0 → reachw(G,x,w) ∧ wd(G,x,w) <= wd(G,x,v) + G[v][w]` -/
theorem wd_relax (G : ι → ι → ℝ) (hG : ∀ x y, 0 ≤ G x y) (x v w : ι) (hr : reachw G x v) (hvw : G v w ≠ 0) :
    reachw G x w ∧ wd G x w ≤ wd G x v + G v w := by
  constructor
  · obtain ⟨m, ℓ, h⟩ := hr
    exact ⟨m + 1, ℓ + G v w, (wwalk_succ G x w m _).mpr ⟨v, ℓ, h, hvw, rfl⟩⟩
  · have : wd G x w - G v w ≤ wd G x v := by
      apply le_wd G x v _ hr
      intro m ℓ h
      have := wd_le G hG x w (m + 1) (ℓ + G v w) ((wwalk_succ G x w m _).mpr ⟨v, ℓ, h, hvw, rfl⟩)
      linarith
    linarith

/-- triangle inequality of the weighted distance -/
theorem wd_triangle (G : ι → ι → ℝ) (hG : ∀ x y, 0 ≤ G x y) (x z y : ι) (h1 : reachw G x z) (h2 : reachw G z y) :
    reachw G x y ∧ wd G x y ≤ wd G x z + wd G z y := by
  constructor
  · obtain ⟨a, ℓ₁, ha⟩ := h1
    obtain ⟨b, ℓ₂, hb⟩ := h2
    exact ⟨a + b, ℓ₁ + ℓ₂, wwalk_concat G x z a ℓ₁ ha b y ℓ₂ hb⟩
  · have : wd G x y - wd G z y ≤ wd G x z := by
      apply le_wd G x z _ h1
      intro a ℓ₁ ha
      have : wd G x y - ℓ₁ ≤ wd G z y := by
        apply le_wd G z y _ h2
        intro b ℓ₂ hb
        have := wd_le G hG x y (a + b) (ℓ₁ + ℓ₂) (wwalk_concat G x z a ℓ₁ ha b y ℓ₂ hb)
        linarith
      linarith
    linarith

/-- a walk that starts inside a node set `P` and ends outside has a first connection `v → w` leaving `P`; the walk is at least as
long as its prefix up to `v` plus that connection (the rest is non-negative) -/
theorem wwalk_cross (G : ι → ι → ℝ) (hG : ∀ x y, 0 ≤ G x y) (P : ι → Prop) (u : ι) (hu : P u) :
    ∀ m y ℓ, wwalk G u y m ℓ → ¬ P y →
      ∃ v w a ℓ₁, P v ∧ ¬ P w ∧ G v w ≠ 0 ∧ wwalk G u v a ℓ₁ ∧ ℓ₁ + G v w ≤ ℓ := by
  intro m
  induction m with
  | zero =>
    intro y ℓ h hy
    rw [wwalk_zero] at h
    rw [← h.1] at hy
    exact absurd hu hy
  | succ m ih =>
    intro y ℓ h hy
    obtain ⟨z, ℓ', hz, hzy, hl⟩ := (wwalk_succ G u y m ℓ).mp h
    by_cases hPz : P z
    · exact ⟨z, y, m, ℓ', hPz, hy, hzy, hz, le_of_eq hl.symm⟩
    · obtain ⟨v, w, a, ℓ₁, hv, hw, hvw, hwalk, hle⟩ := ih z ℓ' hz hPz
      have := hG z y
      exact ⟨v, w, a, ℓ₁, hv, hw, hvw, hwalk, by linarith⟩

/-- the same with the weighted distance of the prefix: every walk from `u ∈ P` to a node outside `P` is at least as long as
`wd(G,u,v) + G[v][w]` for some connection `v → w` leaving `P` (with `v` reachable) -/
theorem wwalk_cross_wd (G : ι → ι → ℝ) (hG : ∀ x y, 0 ≤ G x y) (P : ι → Prop) (u : ι) (hu : P u)
    (m : ℕ) (y : ι) (ℓ : ℝ) (h : wwalk G u y m ℓ) (hy : ¬ P y) :
    ∃ v w, P v ∧ ¬ P w ∧ G v w ≠ 0 ∧ reachw G u v ∧ wd G u v + G v w ≤ ℓ := by
  obtain ⟨v, w, a, ℓ₁, hv, hw, hvw, hwalk, hle⟩ := wwalk_cross G hG P u hu m y ℓ h hy
  have := wd_le G hG u v a ℓ₁ hwalk
  exact ⟨v, w, hv, hw, hvw, ⟨a, ℓ₁, hwalk⟩, by linarith⟩

/-- lower-bound half of the Dijkstra step: if the tentative values `T` are lower bounds over the connections leaving `P`
and `x` minimises `T` outside `P`, every walk from `u` to ANY node outside `P` has length at least `T x` -/
theorem dijkstra_lower (G : ι → ι → ℝ) (hG : ∀ x y, 0 ≤ G x y) (P : ι → Prop) (u : ι) (hu : P u) (T : ι → ℝ)
    (h3 : ∀ w, ¬ P w → ∀ v, P v → G v w ≠ 0 → T w ≤ wd G u v + G v w)
    (x : ι) (hmin : ∀ w, ¬ P w → T x ≤ T w) :
    ∀ y, ¬ P y → ∀ m ℓ, wwalk G u y m ℓ → T x ≤ ℓ := by
  intro y hy m ℓ h
  obtain ⟨v, w, hv, hw, hvw, _, hle⟩ := wwalk_cross_wd G hG P u hu m y ℓ h hy
  have := h3 w hw v hv hvw
  have := hmin w hw
  linarith

/-- (D3) THE DIJKSTRA STEP: `P` the permanent nodes (`u ∈ P`, all reachable from `u`), `T w` for temporary `w` the minimum of
`wd(G,u,v) + G[v][w]` over the connections `v → w` with `v ∈ P` (`INF` if there is none).  A temporary node `x` with minimal
tentative value `T x ≠ INF` is reachable and `T x` is its weighted distance.  (The monotonicity invariant `h2` of the algorithm
is not needed for this step; it is re-established by `dijkstra_step_inv`.) -/
theorem dijkstra_step (G : ι → ι → ℝ) (hG : ∀ x y, 0 ≤ G x y) (P : ι → Prop) (u : ι) (hu : P u) (T : ι → ℝ) (INF : ℝ)
    (h1 : ∀ v, P v → reachw G u v)
    (h3 : ∀ w, ¬ P w → (∀ v, P v → G v w ≠ 0 → T w ≤ wd G u v + G v w) ∧
            (T w = INF ∨ ∃ v, P v ∧ G v w ≠ 0 ∧ T w = wd G u v + G v w))
    (x : ι) (hx : ¬ P x) (hmin : ∀ w, ¬ P w → T x ≤ T w) (hxI : T x ≠ INF) :
    reachw G u x ∧ wd G u x = T x := by
  obtain ⟨v, hv, hvx, hT⟩ : ∃ v, P v ∧ G v x ≠ 0 ∧ T x = wd G u v + G v x := by
    rcases (h3 x hx).2 with h | h
    · exact absurd h hxI
    · exact h
  obtain ⟨hr, hle⟩ := wd_relax G hG u v x (h1 v hv) hvx
  refine ⟨hr, le_antisymm (by rw [hT]; exact hle) ?_⟩
  exact le_wd G u x (T x) hr
    (dijkstra_lower G hG P u hu T (fun w hw => (h3 w hw).1) x hmin x hx)

/-- (D3, invariant) after the step the chosen node is at most as far as every other reachable temporary node:
`¬P w ∧ reachw(G,u,w) → wd(G,u,x) <= wd(G,u,w)` -/
theorem dijkstra_step_le (G : ι → ι → ℝ) (hG : ∀ x y, 0 ≤ G x y) (P : ι → Prop) (u : ι) (hu : P u) (T : ι → ℝ) (INF : ℝ)
    (h1 : ∀ v, P v → reachw G u v)
    (h3 : ∀ w, ¬ P w → (∀ v, P v → G v w ≠ 0 → T w ≤ wd G u v + G v w) ∧
            (T w = INF ∨ ∃ v, P v ∧ G v w ≠ 0 ∧ T w = wd G u v + G v w))
    (x : ι) (hx : ¬ P x) (hmin : ∀ w, ¬ P w → T x ≤ T w) (hxI : T x ≠ INF) :
    ∀ w, ¬ P w → reachw G u w → wd G u x ≤ wd G u w := by
  intro w hw hr
  rw [(dijkstra_step G hG P u hu T INF h1 h3 x hx hmin hxI).2]
  exact le_wd G u w (T x) hr
    (dijkstra_lower G hG P u hu T (fun w hw => (h3 w hw).1) x hmin w hw)

/-- (D3, invariant) the invariants `h1` (permanent nodes are reachable) and `h2` (permanent nodes are at most as far as reachable
temporary nodes) hold again for the enlarged permanent set `P ∪ {x}` -/
theorem dijkstra_step_inv (G : ι → ι → ℝ) (hG : ∀ x y, 0 ≤ G x y) (P : ι → Prop) (u : ι) (hu : P u) (T : ι → ℝ) (INF : ℝ)
    (h1 : ∀ v, P v → reachw G u v)
    (h2 : ∀ v w, P v → ¬ P w → reachw G u w → wd G u v ≤ wd G u w)
    (h3 : ∀ w, ¬ P w → (∀ v, P v → G v w ≠ 0 → T w ≤ wd G u v + G v w) ∧
            (T w = INF ∨ ∃ v, P v ∧ G v w ≠ 0 ∧ T w = wd G u v + G v w))
    (x : ι) (hx : ¬ P x) (hmin : ∀ w, ¬ P w → T x ≤ T w) (hxI : T x ≠ INF) :
    (∀ v, (P v ∨ v = x) → reachw G u v) ∧
    (∀ v w, (P v ∨ v = x) → ¬ (P w ∨ w = x) → reachw G u w → wd G u v ≤ wd G u w) := by
  constructor
  · rintro v (hv | hv)
    · exact h1 v hv
    · rw [hv]; exact (dijkstra_step G hG P u hu T INF h1 h3 x hx hmin hxI).1
  · rintro v w (hv | hv) hw hr
    · exact h2 v w hv (fun h => hw (Or.inl h)) hr
    · rw [hv]
      exact dijkstra_step_le G hG P u hu T INF h1 h3 x hx hmin hxI w (fun h => hw (Or.inl h)) hr

/-- (D3, invariant) the tentative values after the usual update `T' w = min(T w, T x + G[x][w])` over the connections out of the
new permanent node `x` satisfy `h3` for the enlarged permanent set `P ∪ {x}` -/
theorem dijkstra_step_T (G : ι → ι → ℝ) (hG : ∀ x y, 0 ≤ G x y) (P : ι → Prop) (u : ι) (hu : P u) (T : ι → ℝ) (INF : ℝ)
    (h1 : ∀ v, P v → reachw G u v)
    (h3 : ∀ w, ¬ P w → (∀ v, P v → G v w ≠ 0 → T w ≤ wd G u v + G v w) ∧
            (T w = INF ∨ ∃ v, P v ∧ G v w ≠ 0 ∧ T w = wd G u v + G v w))
    (x : ι) (hx : ¬ P x) (hmin : ∀ w, ¬ P w → T x ≤ T w) (hxI : T x ≠ INF)
    (T' : ι → ℝ)
    (hT' : ∀ w, ¬ (P w ∨ w = x) → (G x w ≠ 0 → T' w = min (T w) (T x + G x w)) ∧ (G x w = 0 → T' w = T w)) :
    ∀ w, ¬ (P w ∨ w = x) → (∀ v, (P v ∨ v = x) → G v w ≠ 0 → T' w ≤ wd G u v + G v w) ∧
            (T' w = INF ∨ ∃ v, (P v ∨ v = x) ∧ G v w ≠ 0 ∧ T' w = wd G u v + G v w) := by
  have hdx : wd G u x = T x := (dijkstra_step G hG P u hu T INF h1 h3 x hx hmin hxI).2
  intro w hw
  have hPw : ¬ P w := fun h => hw (Or.inl h)
  obtain ⟨h3a, h3b⟩ := h3 w hPw
  obtain ⟨hTa, hTb⟩ := hT' w hw
  have hle : T' w ≤ T w := by
    by_cases hxw : G x w = 0
    · exact le_of_eq (hTb hxw)
    · rw [hTa hxw]; exact min_le_left _ _
  constructor
  · rintro v (hv | hv) hvw
    · exact le_trans hle (h3a v hv hvw)
    · rw [hv] at hvw ⊢
      rw [hTa hvw, hdx]
      exact min_le_right _ _
  · have hold : T' w = T w → (T' w = INF ∨ ∃ v, (P v ∨ v = x) ∧ G v w ≠ 0 ∧ T' w = wd G u v + G v w) := by
      intro heq
      rcases h3b with h | ⟨v, hv, hvw, hT⟩
      · exact Or.inl (heq.trans h)
      · exact Or.inr ⟨v, Or.inl hv, hvw, heq.trans hT⟩
    by_cases hxw : G x w = 0
    · exact hold (hTb hxw)
    · rcases le_total (T w) (T x + G x w) with hc | hc
      · exact hold (by rw [hTa hxw, min_eq_left hc])
      · exact Or.inr ⟨x, Or.inr rfl, hxw, by rw [hTa hxw, min_eq_right hc, hdx]⟩

/-- initialisation: the invariants `h1`, `h2`, `h3` hold for `P = {u}` and `T w = G[u][w]` if `G[u][w] != 0`, else `INF` -/
theorem dijkstra_init (G : ι → ι → ℝ) (hG : ∀ x y, 0 ≤ G x y) (u : ι) (T : ι → ℝ) (INF : ℝ)
    (hT : ∀ w, w ≠ u → (G u w ≠ 0 → T w = G u w) ∧ (G u w = 0 → T w = INF)) :
    (∀ v, v = u → reachw G u v) ∧
    (∀ v w, v = u → ¬ w = u → reachw G u w → wd G u v ≤ wd G u w) ∧
    (∀ w, ¬ w = u → (∀ v, v = u → G v w ≠ 0 → T w ≤ wd G u v + G v w) ∧
            (T w = INF ∨ ∃ v, v = u ∧ G v w ≠ 0 ∧ T w = wd G u v + G v w)) := by
  refine ⟨?_, ?_, ?_⟩
  · intro v hv; rw [hv]; exact reachw_refl G u
  · intro v w hv _ hr
    rw [hv, wd_self G hG u]
    exact wd_nonneg G hG u w hr
  · intro w hw
    obtain ⟨ha, hb⟩ := hT w hw
    constructor
    · intro v hv hvw
      rw [hv] at hvw ⊢
      rw [ha hvw, wd_self G hG u, zero_add]
    · by_cases huw : G u w = 0
      · exact Or.inl (hb huw)
      · exact Or.inr ⟨u, rfl, huw, by rw [ha huw, wd_self G hG u, zero_add]⟩

/-- (D4) exhaustion: if every temporary node has the tentative value `INF` (and `INF` exceeds every `wd(G,u,v) + G[v][w]` over the
connections `v → w` leaving `P`), no temporary node is reachable from `u` -/
theorem dijkstra_exhausted (G : ι → ι → ℝ) (hG : ∀ x y, 0 ≤ G x y) (P : ι → Prop) (u : ι) (hu : P u) (T : ι → ℝ) (INF : ℝ)
    (h3 : ∀ w, ¬ P w → (∀ v, P v → G v w ≠ 0 → T w ≤ wd G u v + G v w) ∧
            (T w = INF ∨ ∃ v, P v ∧ G v w ≠ 0 ∧ T w = wd G u v + G v w))
    (hINF : ∀ v w, P v → ¬ P w → G v w ≠ 0 → wd G u v + G v w < INF)
    (hall : ∀ w, ¬ P w → T w = INF) :
    ∀ w, ¬ P w → ¬ reachw G u w := by
  rintro y hy ⟨m, ℓ, h⟩
  obtain ⟨v, w, _, _, hv, hw, hvw, _, _⟩ := wwalk_cross G hG P u hu m y ℓ h hy
  have h1 := (h3 w hw).1 v hv hvw
  have h2 := hINF v w hv hw hvw
  have h3 := hall w hw
  linarith

/-- `lemma_dijkstra(G, u, P, T, pr, n)` in the shape of the SMT instance: reachability written `u == v ∨ sdist(G,u,v) >= 1`
(`reachw_iff_sdist`), the witness of a finite tentative value given by the predecessor array `pr`, the bound on `INF` only over the
connections leaving `P`; conclusions: the step (`dijkstra_step`) and the exhausted case (`dijkstra_exhausted`).  The monotonicity
hypothesis `_h2` of the instance is not used. -/
theorem dijkstra_smt (G : ι → ι → ℝ) (hG : ∀ x y, 0 ≤ G x y) (P : ι → Prop) (u : ι) (hu : P u) (T : ι → ℝ) (INF : ℝ) (pr : ι → ι)
    (h1 : ∀ v, P v → (u = v ∨ 1 ≤ sdist G u v))
    (_h2 : ∀ v w, P v → ¬ P w → (u = w ∨ 1 ≤ sdist G u w) → wd G u v ≤ wd G u w)
    (h3a : ∀ v w, P v → ¬ P w → G v w ≠ 0 → T w ≤ wd G u v + G v w ∧ wd G u v + G v w < INF)
    (h3b : ∀ w, ¬ P w → T w = INF ∨ (P (pr w) ∧ G (pr w) w ≠ 0 ∧ T w = wd G u (pr w) + G (pr w) w)) :
    (∀ x, ¬ P x → T x ≠ INF → (∀ w, ¬ P w → T x ≤ T w) → (u = x ∨ 1 ≤ sdist G u x) ∧ wd G u x = T x) ∧
    ((∀ w, ¬ P w → T w = INF) → ∀ w, ¬ P w → ¬ (u = w ∨ 1 ≤ sdist G u w)) := by
  have h1' : ∀ v, P v → reachw G u v := fun v hv => (reachw_iff_sdist G u v).mpr (h1 v hv)
  have h3' : ∀ w, ¬ P w → (∀ v, P v → G v w ≠ 0 → T w ≤ wd G u v + G v w) ∧
      (T w = INF ∨ ∃ v, P v ∧ G v w ≠ 0 ∧ T w = wd G u v + G v w) := by
    intro w hw
    refine ⟨fun v hv hvw => (h3a v w hv hw hvw).1, ?_⟩
    rcases h3b w hw with h | h
    · exact Or.inl h
    · exact Or.inr ⟨pr w, h⟩
  constructor
  · intro x hx hxI hmin
    obtain ⟨hr, hd⟩ := dijkstra_step G hG P u hu T INF h1' h3' x hx hmin hxI
    exact ⟨(reachw_iff_sdist G u x).mp hr, hd⟩
  · intro hall w hw hr
    exact dijkstra_exhausted G hG P u hu T INF h3' (fun v w hv hw hvw => (h3a v w hv hw hvw).2) hall w hw
      ((reachw_iff_sdist G u w).mpr hr)

/-- `lemma_wd(G, n)` in the shape of the SMT instance (reachability written with `sdist`): `wd(x,x) == 0`, `wd >= 0` on reachable pairs,
relaxation -/
theorem wd_smt (G : ι → ι → ℝ) (hG : ∀ x y, 0 ≤ G x y) :
    (∀ x, wd G x x = 0) ∧
    (∀ x y, (x = y ∨ 1 ≤ sdist G x y) → 0 ≤ wd G x y) ∧
    (∀ x y z, (x = y ∨ 1 ≤ sdist G x y) → G y z ≠ 0 → (x = z ∨ 1 ≤ sdist G x z) ∧ wd G x z ≤ wd G x y + G y z) := by
  refine ⟨wd_self G hG, ?_, ?_⟩
  · intro x y h
    exact wd_nonneg G hG x y ((reachw_iff_sdist G x y).mpr h)
  · intro x y z h hyz
    obtain ⟨hr, hle⟩ := wd_relax G hG x y z ((reachw_iff_sdist G x y).mpr h) hyz
    exact ⟨(reachw_iff_sdist G x z).mp hr, hle⟩

/-- (D4, variant without lengths) if no connection leaves `P ∋ u`, nothing outside `P` is reachable from `u` -/
theorem reachw_closed (G : ι → ι → ℝ) (P : ι → Prop) (u : ι) (hu : P u) (hcl : ∀ v w, P v → G v w ≠ 0 → P w) :
    ∀ w, reachw G u w → P w := by
  intro w hr
  obtain ⟨m, h⟩ := (reachw_iff_walk G u w).mp hr
  exact walk_closed G P u hu hcl m w h

/-- all connection lengths are bounded below by some `δ > 0` (finitely many connections, each of positive length) -/
theorem edge_min (G : ι → ι → ℝ) (hG : ∀ x y, 0 ≤ G x y) : ∃ δ : ℝ, 0 < δ ∧ ∀ a b, G a b ≠ 0 → δ ≤ G a b := by
  classical
  let s : Finset (ι × ι) := Finset.univ.filter (fun p => G p.1 p.2 ≠ 0)
  by_cases hs : s.Nonempty
  · obtain ⟨p, hp, hmin⟩ := Finset.exists_min_image s (fun p => G p.1 p.2) hs
    have hp' : G p.1 p.2 ≠ 0 := (Finset.mem_filter.mp hp).2
    refine ⟨G p.1 p.2, lt_of_le_of_ne (hG _ _) (Ne.symm hp'), ?_⟩
    intro a b hab
    exact hmin (a, b) (Finset.mem_filter.mpr ⟨Finset.mem_univ _, hab⟩)
  · refine ⟨1, one_pos, ?_⟩
    intro a b hab
    exact absurd ⟨(a, b), Finset.mem_filter.mpr ⟨Finset.mem_univ _, hab⟩⟩ hs

/-- a walk of `m` connections, each of length at least `δ`, has length at least `m * δ` -/
theorem wwalk_ge (G : ι → ι → ℝ) (δ : ℝ) (hδ : ∀ a b, G a b ≠ 0 → δ ≤ G a b) (x : ι) :
    ∀ m y ℓ, wwalk G x y m ℓ → (m : ℝ) * δ ≤ ℓ := by
  intro m
  induction m with
  | zero =>
    intro y ℓ h
    rw [wwalk_zero] at h
    rw [h.2]; simp
  | succ m ih =>
    intro y ℓ h
    obtain ⟨z, ℓ', hz, hzy, hl⟩ := (wwalk_succ G x y m ℓ).mp h
    have := ih z ℓ' hz
    have := hδ z y hzy
    push_cast
    linarith

/-- for a fixed number of connections there are only finitely many walk lengths -/
theorem wwalk_finite (G : ι → ι → ℝ) (x : ι) : ∀ m y, ({ℓ | wwalk G x y m ℓ} : Set ℝ).Finite := by
  intro m
  induction m with
  | zero =>
    intro y
    apply (Set.finite_singleton (0 : ℝ)).subset
    intro ℓ h
    exact h.2
  | succ m ih =>
    intro y
    have hfin : (⋃ z : ι, (fun ℓ' => ℓ' + G z y) '' {ℓ' | wwalk G x z m ℓ'}).Finite :=
      Set.finite_iUnion (fun z => (ih z).image _)
    apply hfin.subset
    intro ℓ h
    obtain ⟨z, ℓ', hz, _, hl⟩ := (wwalk_succ G x y m ℓ).mp h
    exact Set.mem_iUnion.mpr ⟨z, ℓ', hz, hl.symm⟩

/-- (D1) attainment: the weighted distance is the length of some walk (the infimum is a minimum): walks not longer than a
given walk have a bounded number of connections (`edge_min`, `wwalk_ge`), hence finitely many lengths (`wwalk_finite`) -/
theorem wd_attained (G : ι → ι → ℝ) (hG : ∀ x y, 0 ≤ G x y) (x y : ι) (hr : reachw G x y) :
    ∃ m, wwalk G x y m (wd G x y) := by
  obtain ⟨m₀, ℓ₀, h₀⟩ := hr
  obtain ⟨δ, hδ0, hδ⟩ := edge_min G hG
  obtain ⟨N, hN⟩ := exists_nat_gt (ℓ₀ / δ)
  -- the lengths, not exceeding `ℓ₀`, of walks from `x` to `y`
  set S' : Set ℝ := {ℓ | (∃ m, wwalk G x y m ℓ) ∧ ℓ ≤ ℓ₀} with hS'
  have hfin : S'.Finite := by
    have hU : (⋃ m ∈ {m : ℕ | m ≤ N}, {ℓ | wwalk G x y m ℓ}).Finite :=
      (Set.finite_le_nat N).biUnion (fun m _ => wwalk_finite G x m y)
    apply hU.subset
    rintro ℓ ⟨⟨m, hm⟩, hle⟩
    have h1 := wwalk_ge G δ hδ x m y ℓ hm
    have h2 : (m : ℝ) < N := by
      have : (m : ℝ) ≤ ℓ₀ / δ := by
        rw [le_div_iff₀ hδ0]; linarith
      linarith
    have h3 : m ≤ N := by exact_mod_cast h2.le
    exact Set.mem_biUnion (show m ∈ {m : ℕ | m ≤ N} from h3) hm
  have hne : S'.Nonempty := ⟨ℓ₀, ⟨m₀, h₀⟩, le_refl _⟩
  have hmem : sInf S' ∈ S' := hne.csInf_mem hfin
  have hlow : ∀ ℓ ∈ S', sInf S' ≤ ℓ := fun ℓ hℓ => csInf_le hfin.bddBelow hℓ
  have hleast : IsLeast {ℓ | ∃ m, wwalk G x y m ℓ} (sInf S') := by
    refine ⟨hmem.1, ?_⟩
    rintro ℓ ⟨m, hm⟩
    by_cases hle : ℓ ≤ ℓ₀
    · exact hlow ℓ ⟨⟨m, hm⟩, hle⟩
    · have := hlow ℓ₀ ⟨⟨m₀, h₀⟩, le_refl _⟩
      linarith
  have heq : wd G x y = sInf S' := hleast.csInf_eq
  rw [heq]
  exact hmem.1

/-- (D1, consequence) the weighted distance as a minimum: some walk has length `wd` and no walk is shorter -/
theorem wd_isLeast (G : ι → ι → ℝ) (hG : ∀ x y, 0 ≤ G x y) (x y : ι) (hr : reachw G x y) :
    IsLeast {ℓ | ∃ m, wwalk G x y m ℓ} (wd G x y) :=
  ⟨wd_attained G hG x y hr, fun ℓ ⟨m, h⟩ => wd_le G hG x y m ℓ h⟩

/-- a node different from the source has positive weighted distance -/
theorem wd_pos (G : ι → ι → ℝ) (hG : ∀ x y, 0 ≤ G x y) (x y : ι) (hr : reachw G x y) (hxy : x ≠ y) : 0 < wd G x y := by
  obtain ⟨m, hm⟩ := wd_attained G hG x y hr
  obtain ⟨δ, hδ0, hδ⟩ := edge_min G hG
  have h1 := wwalk_ge G δ hδ x m y _ hm
  rcases Nat.eq_zero_or_pos m with h0 | hpos
  · rw [h0] at hm
    exact absurd hm.1 hxy
  · have : (1 : ℝ) ≤ m := by exact_mod_cast hpos
    nlinarith

/-- the last connection of a shortest walk: a reachable `y ≠ x` has a predecessor `v` with `wd(G,x,y) == wd(G,x,v) + G[v][y]` -/
theorem wd_pred (G : ι → ι → ℝ) (hG : ∀ x y, 0 ≤ G x y) (x y : ι) (hr : reachw G x y) (hxy : x ≠ y) :
    ∃ v, reachw G x v ∧ G v y ≠ 0 ∧ wd G x y = wd G x v + G v y := by
  obtain ⟨m, hm⟩ := wd_attained G hG x y hr
  rcases Nat.eq_zero_or_pos m with h0 | hpos
  · rw [h0] at hm
    exact absurd hm.1 hxy
  · obtain ⟨j, rfl⟩ : ∃ j, m = j + 1 := ⟨m - 1, by omega⟩
    obtain ⟨v, ℓ', hv, hvy, hl⟩ := (wwalk_succ G x y j _).mp hm
    have hrv : reachw G x v := ⟨j, ℓ', hv⟩
    refine ⟨v, hrv, hvy, le_antisymm (wd_relax G hG x v y hrv hvy).2 ?_⟩
    have := wd_le G hG x v j ℓ' hv
    linarith

end dijkstra

-- ===== ELEVENTH BATCH: walks with restricted intermediate nodes, the mathematical core of the Floyd–Warshall algorithm =====
-- `swalk G S x y m ℓ`: a walk of `m ≥ 1` connections from `x` to `y` of total length `ℓ` all of whose INTERMEDIATE nodes (every
-- position of the walk other than the first and the last) satisfy `S`.  Floyd–Warshall: after the rounds for the nodes of `S`, the
-- entry `D x y` is the least length of an `S`-walk; `swalk_empty` is the initial state (`D = G` on the connections), `swalk_insert`
-- / `swalk_concat` the round for a new node `k`, `swalk_wd` / `swalk_lower` the final state (all nodes allowed: `wd`).
section floyd
variable {ι : Type} [Fintype ι] [DecidableEq ι]

/-- `swalk G S x y m ℓ`: there is a walk of exactly `m ≥ 1` connections from `x` to `y`, of total length `ℓ`, whose intermediate
nodes all satisfy `S` (no condition on `x` and `y` themselves) -/
def swalk (G : ι → ι → ℝ) (S : ι → Prop) (x : ι) : ι → ℕ → ℝ → Prop
  | _, 0, _ => False
  | y, 1, ℓ => G x y ≠ 0 ∧ ℓ = G x y
  | y, m + 2, ℓ => ∃ z ℓ', S z ∧ swalk G S x z (m + 1) ℓ' ∧ G z y ≠ 0 ∧ ℓ = ℓ' + G z y

theorem swalk_zero (G : ι → ι → ℝ) (S : ι → Prop) (x y : ι) (ℓ : ℝ) : ¬ swalk G S x y 0 ℓ := by
  simp [swalk]

theorem swalk_one (G : ι → ι → ℝ) (S : ι → Prop) (x y : ι) (ℓ : ℝ) :
    swalk G S x y 1 ℓ ↔ G x y ≠ 0 ∧ ℓ = G x y := by
  simp [swalk]

theorem swalk_succ (G : ι → ι → ℝ) (S : ι → Prop) (x y : ι) (m : ℕ) (ℓ : ℝ) :
    swalk G S x y (m + 2) ℓ ↔ ∃ z ℓ', S z ∧ swalk G S x z (m + 1) ℓ' ∧ G z y ≠ 0 ∧ ℓ = ℓ' + G z y := by
  rw [swalk]

/-- a walk has at least one connection -/
theorem swalk_pos (G : ι → ι → ℝ) (S : ι → Prop) (x y : ι) (m : ℕ) (ℓ : ℝ) (h : swalk G S x y m ℓ) : ∃ j, m = j + 1 := by
  rcases m with _ | j
  · exact absurd h (swalk_zero G S x y ℓ)
  · exact ⟨j, rfl⟩

/-- appending a connection `z → y` to a walk ending in an allowed node `z` -/
theorem swalk_snoc (G : ι → ι → ℝ) (S : ι → Prop) (x z y : ι) (m : ℕ) (ℓ' : ℝ) (hz : S z) (h : swalk G S x z m ℓ')
    (hzy : G z y ≠ 0) : swalk G S x y (m + 1) (ℓ' + G z y) := by
  obtain ⟨j, rfl⟩ := swalk_pos G S x z m ℓ' h
  exact (swalk_succ G S x y j _).mpr ⟨z, ℓ', hz, h, hzy, rfl⟩

/-- induction principle used below: a property of all `m + 1` gives the property for all walks -/
private lemma swalk_cases (G : ι → ι → ℝ) (S : ι → Prop) (x : ι) (Q : ι → ℕ → ℝ → Prop)
    (h : ∀ j y ℓ, swalk G S x y (j + 1) ℓ → Q y (j + 1) ℓ) : ∀ m y ℓ, swalk G S x y m ℓ → Q y m ℓ := by
  intro m y ℓ hw
  obtain ⟨j, rfl⟩ := swalk_pos G S x y m ℓ hw
  exact h j y ℓ hw

/-- no intermediate node allowed: only the single connections -/
theorem swalk_empty (G : ι → ι → ℝ) (S : ι → Prop) (hS : ∀ z, ¬ S z) (x y : ι) (m : ℕ) (ℓ : ℝ)
    (h : swalk G S x y m ℓ) : m = 1 ∧ G x y ≠ 0 ∧ ℓ = G x y := by
  rcases m with _ | _ | j
  · exact absurd h (swalk_zero G S x y ℓ)
  · exact ⟨rfl, (swalk_one G S x y ℓ).mp h⟩
  · obtain ⟨z, _, hz, _⟩ := (swalk_succ G S x y j ℓ).mp h
    exact absurd hz (hS z)

/-- allowing more intermediate nodes keeps the walks -/
theorem swalk_mono (G : ι → ι → ℝ) (S S' : ι → Prop) (hSS : ∀ z, S z → S' z) (x : ι) :
    ∀ m y ℓ, swalk G S x y m ℓ → swalk G S' x y m ℓ := by
  apply swalk_cases
  intro j
  induction j with
  | zero =>
    intro y ℓ h
    exact (swalk_one G S' x y ℓ).mpr ((swalk_one G S x y ℓ).mp h)
  | succ j ih =>
    intro y ℓ h
    obtain ⟨z, ℓ', hz, hp, hzy, hl⟩ := (swalk_succ G S x y j ℓ).mp h
    exact (swalk_succ G S' x y j ℓ).mpr ⟨z, ℓ', hSS z hz, ih z ℓ' hp, hzy, hl⟩

/-- forgetting the restriction: a restricted walk is a weighted walk -/
theorem wwalk_of_swalk (G : ι → ι → ℝ) (S : ι → Prop) (x : ι) :
    ∀ m y ℓ, swalk G S x y m ℓ → wwalk G x y m ℓ := by
  apply swalk_cases
  intro j
  induction j with
  | zero =>
    intro y ℓ h
    obtain ⟨hxy, hl⟩ := (swalk_one G S x y ℓ).mp h
    exact (wwalk_succ G x y 0 ℓ).mpr ⟨x, 0, wwalk_refl G x, hxy, by rw [hl]; ring⟩
  | succ j ih =>
    intro y ℓ h
    obtain ⟨z, ℓ', _, hp, hzy, hl⟩ := (swalk_succ G S x y j ℓ).mp h
    exact (wwalk_succ G x y (j + 1) ℓ).mpr ⟨z, ℓ', ih z ℓ' hp, hzy, hl⟩

/-- with every node allowed, the weighted walks of at least one connection are restricted walks -/
theorem swalk_of_wwalk (G : ι → ι → ℝ) (x : ι) :
    ∀ m y ℓ, wwalk G x y m ℓ → 1 ≤ m → swalk G (fun _ => True) x y m ℓ := by
  have aux : ∀ j y ℓ, wwalk G x y (j + 1) ℓ → swalk G (fun _ => True) x y (j + 1) ℓ := by
    intro j
    induction j with
    | zero =>
      intro y ℓ h
      obtain ⟨z, ℓ', h0, hzy, hl⟩ := (wwalk_succ G x y 0 ℓ).mp h
      obtain ⟨hxz, hl'⟩ := (wwalk_zero G x z ℓ').mp h0
      rw [← hxz] at hzy hl
      exact (swalk_one G _ x y ℓ).mpr ⟨hzy, by rw [hl, hl']; ring⟩
    | succ j ih =>
      intro y ℓ h
      obtain ⟨z, ℓ', hp, hzy, hl⟩ := (wwalk_succ G x y (j + 1) ℓ).mp h
      exact (swalk_succ G _ x y j ℓ).mpr ⟨z, ℓ', trivial, ih z ℓ' hp, hzy, hl⟩
  intro m y ℓ h hm
  obtain ⟨j, rfl⟩ : ∃ j, m = j + 1 := ⟨m - 1, by omega⟩
  exact aux j y ℓ h

/-- the length of a restricted walk is non-negative -/
theorem swalk_nonneg (G : ι → ι → ℝ) (hG : ∀ a b, 0 ≤ G a b) (S : ι → Prop) (x y : ι) (m : ℕ) (ℓ : ℝ)
    (h : swalk G S x y m ℓ) : 0 ≤ ℓ := by
  have hw := wwalk_of_swalk G S x m y ℓ h
  clear h
  induction m generalizing y ℓ with
  | zero => rw [((wwalk_zero G x y ℓ).mp hw).2]
  | succ m ih =>
    obtain ⟨z, ℓ', hz, _, hl⟩ := (wwalk_succ G x y m ℓ).mp hw
    have := ih z ℓ' hz
    have := hG z y
    linarith

/-- concatenation at `k`: an `S`-walk `x → k` followed by an `S`-walk `k → y` is an `S ∪ {k}`-walk; counts and lengths add -/
theorem swalk_concat (G : ι → ι → ℝ) (S : ι → Prop) (x k : ι) (m₁ : ℕ) (ℓ₁ : ℝ) (h1 : swalk G S x k m₁ ℓ₁) :
    ∀ m₂ y ℓ₂, swalk G S k y m₂ ℓ₂ → swalk G (fun z => S z ∨ z = k) x y (m₁ + m₂) (ℓ₁ + ℓ₂) := by
  have h1' : swalk G (fun z => S z ∨ z = k) x k m₁ ℓ₁ := swalk_mono G S _ (fun z hz => Or.inl hz) x m₁ k ℓ₁ h1
  apply swalk_cases G S k (fun y m₂ ℓ₂ => swalk G (fun z => S z ∨ z = k) x y (m₁ + m₂) (ℓ₁ + ℓ₂))
  intro j
  induction j with
  | zero =>
    intro y ℓ₂ h2
    obtain ⟨hky, hl⟩ := (swalk_one G S k y ℓ₂).mp h2
    rw [hl]
    exact swalk_snoc G _ x k y m₁ ℓ₁ (Or.inr rfl) h1' hky
  | succ j ih =>
    intro y ℓ₂ h2
    obtain ⟨z, ℓ', hz, hp, hzy, hl⟩ := (swalk_succ G S k y j ℓ₂).mp h2
    have := swalk_snoc G _ x z y (m₁ + (j + 1)) (ℓ₁ + ℓ') (Or.inl hz) (ih z ℓ' hp) hzy
    rw [hl, show ℓ₁ + (ℓ' + G z y) = ℓ₁ + ℓ' + G z y by ring]
    exact this

/-- THE FLOYD–WARSHALL STEP: a walk whose intermediate nodes lie in `S ∪ {k}` either avoids `k` as an intermediate node, or yields
an `S`-walk `x → k` and an `S`-walk `k → y` that are together not longer (the closed parts at `k` are dropped: lengths are
non-negative) -/
theorem swalk_insert (G : ι → ι → ℝ) (hG : ∀ a b, 0 ≤ G a b) (S : ι → Prop) (k x : ι) :
    ∀ m y ℓ, swalk G (fun z => S z ∨ z = k) x y m ℓ →
      (swalk G S x y m ℓ ∨ ∃ m₁ ℓ₁ m₂ ℓ₂, swalk G S x k m₁ ℓ₁ ∧ swalk G S k y m₂ ℓ₂ ∧ ℓ₁ + ℓ₂ ≤ ℓ) := by
  apply swalk_cases G (fun z => S z ∨ z = k) x (fun y m ℓ =>
    swalk G S x y m ℓ ∨ ∃ m₁ ℓ₁ m₂ ℓ₂, swalk G S x k m₁ ℓ₁ ∧ swalk G S k y m₂ ℓ₂ ∧ ℓ₁ + ℓ₂ ≤ ℓ)
  intro j
  induction j with
  | zero =>
    intro y ℓ h
    exact Or.inl ((swalk_one G S x y ℓ).mpr ((swalk_one G _ x y ℓ).mp h))
  | succ j ih =>
    intro y ℓ h
    obtain ⟨z, ℓ', hz, hp, hzy, hl⟩ := (swalk_succ G _ x y j ℓ).mp h
    by_cases hzk : z = k
    · -- the last intermediate node is `k`: second part = the single connection `k → y`
      rw [hzk] at hp hzy hl
      have h2 : swalk G S k y 1 (G k y) := (swalk_one G S k y _).mpr ⟨hzy, rfl⟩
      rcases ih k ℓ' hp with hS | ⟨m₁, ℓ₁, m₂, ℓ₂, h1, hc, hle⟩
      · exact Or.inr ⟨j + 1, ℓ', 1, G k y, hS, h2, le_of_eq hl.symm⟩
      · have := swalk_nonneg G hG S k k m₂ ℓ₂ hc
        exact Or.inr ⟨m₁, ℓ₁, 1, G k y, h1, h2, by linarith⟩
    · -- the last intermediate node is in `S`: extend the walk / the second part by `z → y`
      have hSz : S z := hz.resolve_right hzk
      rcases ih z ℓ' hp with hS | ⟨m₁, ℓ₁, m₂, ℓ₂, h1, h2, hle⟩
      · exact Or.inl ((swalk_succ G S x y j ℓ).mpr ⟨z, ℓ', hSz, hS, hzy, hl⟩)
      · exact Or.inr ⟨m₁, ℓ₁, m₂ + 1, ℓ₂ + G z y, h1, swalk_snoc G S k z y m₂ ℓ₂ hSz h2 hzy, by linarith⟩

/-- final state, attainment: with every node allowed, the weighted distance of a reachable `y ≠ x` is the length of a walk -/
theorem swalk_wd (G : ι → ι → ℝ) (hG : ∀ a b, 0 ≤ G a b) (x y : ι) (hr : reachw G x y) (hxy : x ≠ y) :
    ∃ m, swalk G (fun _ => True) x y m (wd G x y) := by
  obtain ⟨m, hm⟩ := wd_attained G hG x y hr
  rcases Nat.eq_zero_or_pos m with h0 | hpos
  · rw [h0] at hm
    exact absurd hm.1 hxy
  · exact ⟨m, swalk_of_wwalk G x m y _ hm hpos⟩

/-- lower bound: a restricted walk (any `S`) is at least as long as the weighted distance, and its end is reachable -/
theorem swalk_lower (G : ι → ι → ℝ) (hG : ∀ a b, 0 ≤ G a b) (S : ι → Prop) (x y : ι) (m : ℕ) (ℓ : ℝ)
    (h : swalk G S x y m ℓ) (_hxy : x ≠ y) : wd G x y ≤ ℓ ∧ reachw G x y :=
  ⟨wd_le G hG x y m ℓ (wwalk_of_swalk G S x m y ℓ h), ⟨m, ℓ, wwalk_of_swalk G S x m y ℓ h⟩⟩

/-- `lemma_floyd(G, n)` in the shape of the SMT instance (reachability written `x == y ∨ sdist(G,x,y) >= 1`, `reachw_iff_sdist`):
initial state (`swalk_empty` with no node allowed), the round for a node `k` (`swalk_insert`), final state (`swalk_wd`) -/
theorem floyd_smt (G : ι → ι → ℝ) (hG : ∀ a b, 0 ≤ G a b) :
    (∀ x y m ℓ, swalk G (fun _ => False) x y m ℓ → m = 1 ∧ G x y ≠ 0 ∧ ℓ = G x y) ∧
    (∀ (S : ι → Prop) k x y m ℓ, swalk G (fun z => S z ∨ z = k) x y m ℓ →
      (swalk G S x y m ℓ ∨ ∃ m₁ ℓ₁ m₂ ℓ₂, swalk G S x k m₁ ℓ₁ ∧ swalk G S k y m₂ ℓ₂ ∧ ℓ₁ + ℓ₂ ≤ ℓ)) ∧
    (∀ x y, (x = y ∨ 1 ≤ sdist G x y) → x ≠ y → ∃ m, swalk G (fun _ => True) x y m (wd G x y)) := by
  refine ⟨?_, ?_, ?_⟩
  · intro x y m ℓ h
    exact swalk_empty G _ (fun _ hz => hz) x y m ℓ h
  · intro S k x y m ℓ h
    exact swalk_insert G hG S k x m y ℓ h
  · intro x y hr hxy
    exact swalk_wd G hG x y ((reachw_iff_sdist G x y).mpr hr) hxy

end floyd

section wdbinary
variable {ι : Type} [Fintype ι] [DecidableEq ι]

/-- a 0/1 matrix is non-negative -/
theorem binary_nonneg (G : ι → ι → ℝ) (hB : ∀ a b, G a b = 0 ∨ G a b = 1) : ∀ a b, 0 ≤ G a b := by
  intro a b
  rcases hB a b with h | h <;> rw [h]
  exact zero_le_one

/-- on a 0/1 matrix every connection has length 1, so the length of a walk is its number of connections -/
theorem wwalk_binary_len (G : ι → ι → ℝ) (hB : ∀ a b, G a b = 0 ∨ G a b = 1) (x : ι) :
    ∀ m y ℓ, wwalk G x y m ℓ → ℓ = (m : ℝ) := by
  intro m
  induction m with
  | zero =>
    intro y ℓ h
    rw [h.2]
    simp
  | succ m ih =>
    intro y ℓ h
    obtain ⟨z, ℓ', hw, hne, hℓ⟩ := h
    have h1 : G z y = 1 := by
      rcases hB z y with h0 | h1
      · exact absurd h0 hne
      · exact h1
    rw [hℓ, ih z ℓ' hw, h1]
    push_cast
    ring

/-- on a 0/1 matrix a walk of `m` connections is a weighted walk of length `m` -/
theorem wwalk_binary_of_walk (G : ι → ι → ℝ) (hB : ∀ a b, G a b = 0 ∨ G a b = 1) (x : ι) :
    ∀ m y, walk G x y m → wwalk G x y m (m : ℝ) := by
  intro m y h
  obtain ⟨ℓ, hw⟩ := walk_wwalk G x m y h
  have hℓ := wwalk_binary_len G hB x m y ℓ hw
  rw [hℓ] at hw
  exact hw

/-- on a 0/1 matrix the weighted distance is the hop distance -/
theorem wd_binary (G : ι → ι → ℝ) (hB : ∀ a b, G a b = 0 ∨ G a b = 1) (x y : ι) (hxy : x ≠ y)
    (hr : reachw G x y) : 1 ≤ sdist G x y ∧ wd G x y = (sdist G x y : ℝ) := by
  have hG := binary_nonneg G hB
  have hs : 1 ≤ sdist G x y := by
    rcases (reachw_iff_sdist G x y).mp hr with h | h
    · exact absurd h hxy
    · exact h
  refine ⟨hs, le_antisymm ?_ ?_⟩
  · exact wd_le G hG x y (sdist G x y) _
      (wwalk_binary_of_walk G hB x (sdist G x y) y (walk_sdist G x y hs))
  · apply le_wd G x y _ hr
    intro m ℓ hw
    rw [wwalk_binary_len G hB x m y ℓ hw]
    have hwalk := wwalk_walk G x m y ℓ hw
    have hm : 1 ≤ m := by
      rcases Nat.eq_zero_or_pos m with h0 | hpos
      · rw [h0] at hwalk
        exact absurd hwalk hxy
      · exact hpos
    exact_mod_cast (sdist_le G x y m hwalk hm).2

/-- `wd_binary` in the form used by the SMT side (reachability written with `sdist`):
`G` 0/1, `x != y`, `sdist(G,x,y) >= 1` ⟹ `wd(G,x,y) == sdist(G,x,y)` -/
theorem wd_binary_smt (G : ι → ι → ℝ) (hB : ∀ a b, G a b = 0 ∨ G a b = 1) :
    ∀ x y, x ≠ y → 1 ≤ sdist G x y → wd G x y = (sdist G x y : ℝ) := by
  intro x y hxy hs
  exact (wd_binary G hB x y hxy ((reachw_iff_sdist G x y).mpr (Or.inr hs))).2

/-- the walks depend only on the support of the matrix -/
theorem walk_congr_support (G H : ι → ι → ℝ) (hGH : ∀ a b, G a b ≠ 0 ↔ H a b ≠ 0) (x : ι) :
    ∀ m y, walk G x y m ↔ walk H x y m := by
  intro m
  induction m with
  | zero =>
    intro y
    exact Iff.rfl
  | succ m ih =>
    intro y
    constructor
    · rintro ⟨z, hw, hz⟩
      exact ⟨z, (ih z).mp hw, (hGH z y).mp hz⟩
    · rintro ⟨z, hw, hz⟩
      exact ⟨z, (ih z).mpr hw, (hGH z y).mpr hz⟩

/-- the hop distance depends only on the support of the matrix -/
theorem sdist_congr_support (G H : ι → ι → ℝ) (hGH : ∀ a b, G a b ≠ 0 ↔ H a b ≠ 0) :
    ∀ x y, sdist G x y = sdist H x y := by
  intro x y
  unfold sdist
  congr 1
  ext m
  exact and_congr Iff.rfl (walk_congr_support G H hGH x m y)

end wdbinary

section pointwise
variable {ι : Type} [Fintype ι] [DecidableEq ι]

/-- matrices that agree in every cell are the same matrix (the SMT side states agreement for the cells in range only; the cells in range are
all the cells of the Lean matrix) -/
theorem matrix_ext_cells (A B : ι → ι → ℝ) (h : ∀ a b, A a b = B a b) : A = B :=
  funext fun a => funext fun b => h a b

theorem wd_congr_cells (A B : ι → ι → ℝ) (h : ∀ a b, A a b = B a b) (x y : ι) : wd A x y = wd B x y := by
  rw [matrix_ext_cells A B h]

theorem sdist_congr_cells (A B : ι → ι → ℝ) (h : ∀ a b, A a b = B a b) (x y : ι) : sdist A x y = sdist B x y := by
  rw [matrix_ext_cells A B h]

theorem tot_congr_cells (A B : ι → ι → ℝ) (h : ∀ a b, A a b = B a b) : tot A = tot B := by
  rw [matrix_ext_cells A B h]

end pointwise

section renumber
open BigOperators Finset
variable {ι : Type} [Fintype ι] [DecidableEq ι]

/-- renumbering the nodes by a permutation `σ`: a walk in the renumbered matrix from `x` to `y` is a walk in the original matrix from `σ x` to
`σ y` (the intermediate node `z` corresponds to `σ z`) -/
theorem walk_renum (G : ι → ι → ℝ) (σ : Equiv.Perm ι) (x : ι) :
    ∀ m y, walk (fun a b => G (σ a) (σ b)) x y m ↔ walk G (σ x) (σ y) m := by
  intro m
  induction m with
  | zero =>
    intro y
    rw [walk_zero, walk_zero]
    exact σ.injective.eq_iff.symm
  | succ m ih =>
    intro y
    rw [walk_succ, walk_succ]
    constructor
    · rintro ⟨z, hz, hG⟩
      exact ⟨σ z, (ih z).mp hz, hG⟩
    · rintro ⟨z, hz, hG⟩
      refine ⟨σ.symm z, (ih (σ.symm z)).mpr ?_, ?_⟩
      · rw [Equiv.apply_symm_apply]; exact hz
      · show G (σ (σ.symm z)) (σ y) ≠ 0
        rw [Equiv.apply_symm_apply]; exact hG

/-- the hop distance is invariant under renumbering the nodes -/
theorem sdist_renum (G : ι → ι → ℝ) (σ : Equiv.Perm ι) (x y : ι) :
    sdist (fun a b => G (σ a) (σ b)) x y = sdist G (σ x) (σ y) := by
  unfold sdist
  congr 1
  ext m
  exact and_congr Iff.rfl (walk_renum G σ x m y)

theorem wwalk_renum (G : ι → ι → ℝ) (σ : Equiv.Perm ι) (x : ι) :
    ∀ m y ℓ, wwalk (fun a b => G (σ a) (σ b)) x y m ℓ ↔ wwalk G (σ x) (σ y) m ℓ := by
  intro m
  induction m with
  | zero =>
    intro y ℓ
    rw [wwalk_zero, wwalk_zero]
    exact and_congr σ.injective.eq_iff.symm Iff.rfl
  | succ m ih =>
    intro y ℓ
    rw [wwalk_succ, wwalk_succ]
    constructor
    · rintro ⟨z, ℓ', hz, hG, hℓ⟩
      exact ⟨σ z, ℓ', (ih z ℓ').mp hz, hG, hℓ⟩
    · rintro ⟨z, ℓ', hz, hG, hℓ⟩
      refine ⟨σ.symm z, ℓ', (ih (σ.symm z) ℓ').mpr ?_, ?_, ?_⟩
      · rw [Equiv.apply_symm_apply]; exact hz
      · show G (σ (σ.symm z)) (σ y) ≠ 0
        rw [Equiv.apply_symm_apply]; exact hG
      · show ℓ = ℓ' + G (σ (σ.symm z)) (σ y)
        rw [Equiv.apply_symm_apply]; exact hℓ

theorem reachw_renum (G : ι → ι → ℝ) (σ : Equiv.Perm ι) (x y : ι) :
    reachw (fun a b => G (σ a) (σ b)) x y ↔ reachw G (σ x) (σ y) := by
  unfold reachw
  exact exists_congr fun m => exists_congr fun ℓ => wwalk_renum G σ x m y ℓ

/-- the weighted distance is invariant under renumbering the nodes -/
theorem wd_renum (G : ι → ι → ℝ) (σ : Equiv.Perm ι) (x y : ι) :
    wd (fun a b => G (σ a) (σ b)) x y = wd G (σ x) (σ y) := by
  unfold wd
  congr 1
  ext ℓ
  exact exists_congr fun m => wwalk_renum G σ x m y ℓ

/-- the matrix total is invariant under renumbering the nodes -/
theorem tot_renum (M : ι → ι → ℝ) (σ : Equiv.Perm ι) :
    tot (fun a b => M (σ a) (σ b)) = tot M := by
  unfold tot
  rw [← Equiv.sum_comp σ (fun x => ∑ y, M x y)]
  exact Finset.sum_congr rfl fun a _ => Equiv.sum_comp σ (fun y => M (σ a) y)

/-- SMT-shaped forms: the renumbered matrix is a separate matrix `H` that agrees with the renumbering in every cell -/
theorem sdist_renum_cells (G H : ι → ι → ℝ) (σ : Equiv.Perm ι) (h : ∀ a b, H a b = G (σ a) (σ b)) :
    ∀ x y, sdist H x y = sdist G (σ x) (σ y) := by
  intro x y
  rw [matrix_ext_cells H (fun a b => G (σ a) (σ b)) h]
  exact sdist_renum G σ x y

theorem wd_renum_cells (G H : ι → ι → ℝ) (σ : Equiv.Perm ι) (h : ∀ a b, H a b = G (σ a) (σ b)) :
    ∀ x y, wd H x y = wd G (σ x) (σ y) := by
  intro x y
  rw [matrix_ext_cells H (fun a b => G (σ a) (σ b)) h]
  exact wd_renum G σ x y

theorem tot_renum_cells (M H : ι → ι → ℝ) (σ : Equiv.Perm ι) (h : ∀ a b, H a b = M (σ a) (σ b)) :
    tot H = tot M := by
  rw [matrix_ext_cells H (fun a b => M (σ a) (σ b)) h]
  exact tot_renum M σ

end renumber

section diagcount
open Finset
variable {ι : Type} [Fintype ι] [DecidableEq ι]

/-! ### counts depend on the support only; making the whole diagonal non-zero adds one to every row and column count
(the SMT spec function `cnt1(r, n)` is `cnt r`; the row count of row `x` of `M` is `cnt (M x)`) -/

/-- matrices with the same support have the same column counts -/
theorem ccnt_congr_support (A B : ι → ι → ℝ) (h : ∀ a b, A a b ≠ 0 ↔ B a b ≠ 0) (y : ι) :
    ccnt A y = ccnt B y := by
  unfold ccnt
  congr 1
  exact Finset.filter_congr (fun x _ => h x y)

/-- matrices with the same support have the same row counts (`cnt1(A[x], n) == cnt1(B[x], n)`) -/
theorem cnt1_congr_support (A B : ι → ι → ℝ) (h : ∀ a b, A a b ≠ 0 ↔ B a b ≠ 0) (x : ι) :
    cnt (A x) = cnt (B x) := by
  unfold cnt
  congr 1
  exact Finset.filter_congr (fun y _ => h x y)

/-- `B` is `A` (zero diagonal) with every diagonal entry made non-zero, same support off the diagonal: every column gains exactly one
non-zero entry -/
theorem ccnt_diag_set (A B : ι → ι → ℝ) (hoff : ∀ a b, a ≠ b → (B a b ≠ 0 ↔ A a b ≠ 0)) (hA : ∀ a, A a a = 0)
    (hB : ∀ a, B a a ≠ 0) (y : ι) : ccnt B y = ccnt A y + 1 := by
  unfold ccnt
  have hins : (Finset.univ.filter (fun x => B x y ≠ 0)) = insert y (Finset.univ.filter (fun x => A x y ≠ 0)) := by
    ext x
    simp only [Finset.mem_filter, Finset.mem_univ, true_and, Finset.mem_insert]
    by_cases hxy : x = y
    · subst hxy
      exact ⟨fun _ => Or.inl rfl, fun _ => hB x⟩
    · rw [hoff x y hxy]
      exact ⟨fun hx => Or.inr hx, fun hx => hx.resolve_left hxy⟩
  have hnot : y ∉ Finset.univ.filter (fun x => A x y ≠ 0) := by
    simp [hA y]
  rw [hins, Finset.card_insert_of_notMem hnot]

/-- the same for rows (`cnt1(B[x], n) == cnt1(A[x], n) + 1`) -/
theorem cnt1_diag_set (A B : ι → ι → ℝ) (hoff : ∀ a b, a ≠ b → (B a b ≠ 0 ↔ A a b ≠ 0)) (hA : ∀ a, A a a = 0)
    (hB : ∀ a, B a a ≠ 0) (x : ι) : cnt (B x) = cnt (A x) + 1 := by
  have h := ccnt_diag_set (fun a b => A b a) (fun a b => B b a) (fun a b hab => hoff b a (Ne.symm hab)) hA hB x
  simpa [ccnt, cnt] using h

end diagcount

section nestcount
open BigOperators Finset
variable {ι : Type} [Fintype ι] [DecidableEq ι]

/-- every non-zero entry of column `v` of `B` sits in a row of `S` where `M` is non-zero too -/
theorem ccnt_le_dset (B M : ι → ι → ℝ) (S : ι → Prop) [DecidablePred S] (v : ι)
    (h : ∀ w, B w v ≠ 0 → S w ∧ M w v ≠ 0) : ccnt B v ≤ dset M S v := by
  unfold ccnt dset
  apply Finset.card_le_card
  intro w hw
  rw [Finset.mem_filter] at hw ⊢
  exact ⟨hw.1, h w hw.2⟩

/-- every non-zero entry of row `v` of `B` sits in a column of `S` where `M` is non-zero too -/
theorem cnt_le_rset (B M : ι → ι → ℝ) (S : ι → Prop) [DecidablePred S] (v : ι)
    (h : ∀ w, B v w ≠ 0 → S w ∧ M v w ≠ 0) : cnt (B v) ≤ rset M S v := by
  unfold cnt rset
  apply Finset.card_le_card
  intro w hw
  rw [Finset.mem_filter] at hw ⊢
  exact ⟨hw.1, h w hw.2⟩

theorem ccnt_pos_of_witness (B : ι → ι → ℝ) (x y : ι) (h : B x y ≠ 0) : 1 ≤ ccnt B y := by
  unfold ccnt
  apply Finset.card_pos.mpr
  exact ⟨x, by rw [Finset.mem_filter]; exact ⟨Finset.mem_univ x, h⟩⟩

theorem cnt_pos_of_witness (B : ι → ι → ℝ) (x y : ι) (h : B x y ≠ 0) : 1 ≤ cnt (B x) := by
  unfold cnt
  apply Finset.card_pos.mpr
  exact ⟨y, by rw [Finset.mem_filter]; exact ⟨Finset.mem_univ y, h⟩⟩

/-- every entry of column `v` of `B` is the `M`-entry of a row in `S`, or zero -/
theorem csum_le_wset (B M : ι → ι → ℝ) (S : ι → Prop) [DecidablePred S] (v : ι)
    (hM : ∀ a b, 0 ≤ M a b)
    (h : ∀ w, B w v = (if S w then M w v else 0) ∨ (B w v = 0)) : csum B v ≤ wset M S v := by
  unfold csum wset
  apply Finset.sum_le_sum
  intro w _
  rcases h w with h1 | h0
  · exact le_of_eq h1
  · rw [h0]
    by_cases hs : S w
    · rw [if_pos hs]; exact hM w v
    · rw [if_neg hs]

end nestcount

section csumpos
variable {ι : Type} [Fintype ι] [DecidableEq ι]
open BigOperators Finset

/-- a non-zero entry of a non-negative matrix makes its column sum positive -/
theorem csum_pos_of_witness (B : ι → ι → ℝ) (hB : ∀ a b, 0 ≤ B a b) (x y : ι) (h : B x y ≠ 0) :
    0 < csum B y := by
  have hpos : 0 < B x y := lt_of_le_of_ne (hB x y) (Ne.symm h)
  have hle : B x y ≤ ∑ a, B a y :=
    Finset.single_le_sum (f := fun a => B a y) (fun a _ => hB a y) (Finset.mem_univ x)
  unfold csum
  exact lt_of_lt_of_le hpos hle

end csumpos

section cellsum
variable {ι : Type} [Fintype ι] [DecidableEq ι]
open BigOperators Finset

/-- an enumeration of all cells of a matrix, each exactly once, sums to the total -/
theorem tot_eq_sum_enumeration (M : ι → ι → ℝ) (k : ℕ) (cell : Fin k → ι × ι)
    (hbij : Function.Bijective cell) :
    ∑ t, M (cell t).1 (cell t).2 = tot M := by
  have h1 : ∑ t, M (cell t).1 (cell t).2 = ∑ p : ι × ι, M p.1 p.2 :=
    Fintype.sum_bijective cell hbij (fun t => M (cell t).1 (cell t).2) (fun p => M p.1 p.2)
      (fun _ => rfl)
  rw [h1, Fintype.sum_prod_type]
  rfl

/-- the same with injectivity and (cell-wise) surjectivity stated separately -/
theorem tot_eq_sum_enumeration_of_inj_surj (M : ι → ι → ℝ) (k : ℕ) (cell : Fin k → ι × ι)
    (hinj : Function.Injective cell) (hsurj : ∀ x y, ∃ t, cell t = (x, y)) :
    ∑ t, M (cell t).1 (cell t).2 = tot M :=
  tot_eq_sum_enumeration M k cell ⟨hinj, fun p => hsurj p.1 p.2⟩

end cellsum

section nbrsum
variable {ι : Type} [Fintype ι] [DecidableEq ι]
open BigOperators Finset

/-- `nbrsum(G, u, n)`: the sum of G over all ordered pairs of neighbours of u (neighbours: G u v ≠ 0) -/
noncomputable def nbrsum (G : ι → ι → ℝ) (u : ι) : ℝ := ∑ v, ∑ w, if G u v ≠ 0 ∧ G u w ≠ 0 then G v w else 0

/-- an injective enumeration of exactly the elements satisfying `P` has `univ.filter P` as its image -/
theorem nbr_image_enum (P : ι → Prop) [DecidablePred P] (k : ℕ) (V : Fin k → ι)
    (hP : ∀ a, P (V a)) (hcov : ∀ x, P x → ∃ a, V a = x) :
    (univ : Finset (Fin k)).image V = univ.filter P := by
  ext x
  simp only [mem_image, mem_univ, true_and, mem_filter]
  constructor
  · rintro ⟨a, rfl⟩
    exact hP a
  · exact hcov x

/-- summing `f` along an injective enumeration of exactly the elements satisfying `P` -/
theorem nbr_sum_enum (f : ι → ℝ) (P : ι → Prop) [DecidablePred P] (k : ℕ) (V : Fin k → ι)
    (hinj : Function.Injective V) (hP : ∀ a, P (V a)) (hcov : ∀ x, P x → ∃ a, V a = x) :
    ∑ a, f (V a) = ∑ x, if P x then f x else 0 := by
  rw [← Finset.sum_filter, ← nbr_image_enum P k V hP hcov,
    Finset.sum_image (fun a _ b _ h => hinj h)]

/-- the sub-matrix indexed by an injective enumeration `V` of exactly the elements satisfying `P`
sums to the sum over pairs in `P` -/
theorem sum_enum_pairs (G : ι → ι → ℝ) (P : ι → Prop) [DecidablePred P] (k : ℕ) (V : Fin k → ι)
    (hinj : Function.Injective V) (hP : ∀ a, P (V a)) (hcov : ∀ x, P x → ∃ a, V a = x) :
    ∑ a, ∑ b, G (V a) (V b) = ∑ v, ∑ w, if P v ∧ P w then G v w else 0 := by
  have h1 : ∀ a, ∑ b, G (V a) (V b) = ∑ w, if P w then G (V a) w else 0 :=
    fun a => nbr_sum_enum (fun w => G (V a) w) P k V hinj hP hcov
  simp only [h1]
  rw [nbr_sum_enum (fun v => ∑ w, if P w then G v w else 0) P k V hinj hP hcov]
  refine Finset.sum_congr rfl (fun v _ => ?_)
  by_cases hv : P v
  · simp [hv]
  · simp [hv]

/-- the sub-matrix indexed by an enumeration of the neighbours of `u` sums to `nbrsum G u` -/
theorem nbrsum_enum (G : ι → ι → ℝ) (u : ι) (k : ℕ) (V : Fin k → ι)
    (hinj : Function.Injective V) (hP : ∀ a, G u (V a) ≠ 0) (hcov : ∀ x, G u x ≠ 0 → ∃ a, V a = x) :
    ∑ a, ∑ b, G (V a) (V b) = nbrsum G u := by
  unfold nbrsum
  exact sum_enum_pairs G (fun x => G u x ≠ 0) k V hinj hP hcov

/-- the enumeration has exactly as many entries as row `u` has non-zero entries -/
theorem card_enum (G : ι → ι → ℝ) (u : ι) (k : ℕ) (V : Fin k → ι)
    (hinj : Function.Injective V) (hP : ∀ a, G u (V a) ≠ 0) (hcov : ∀ x, G u x ≠ 0 → ∃ a, V a = x) :
    k = cnt (G u) := by
  unfold cnt
  rw [← nbr_image_enum (fun x => G u x ≠ 0) k V hP hcov, Finset.card_image_of_injective _ hinj,
    Finset.card_univ, Fintype.card_fin]

end nbrsum

section nbrrenum
variable {ι : Type} [Fintype ι] [DecidableEq ι]
open BigOperators Finset

/-- renumbering the nodes by a permutation `σ`: the neighbour-pair sum of node `x` in the renumbered matrix is the neighbour-pair sum of
node `σ x` in the original matrix -/
theorem nbrsum_renum (G : ι → ι → ℝ) (σ : Equiv.Perm ι) (x : ι) :
    nbrsum (fun a b => G (σ a) (σ b)) x = nbrsum G (σ x) := by
  unfold nbrsum
  rw [← Equiv.sum_comp σ (fun v => ∑ w, if G (σ x) v ≠ 0 ∧ G (σ x) w ≠ 0 then G v w else 0)]
  refine Finset.sum_congr rfl (fun v _ => ?_)
  rw [← Equiv.sum_comp σ (fun w => if G (σ x) (σ v) ≠ 0 ∧ G (σ x) w ≠ 0 then G (σ v) w else 0)]

/-- the number of non-zero entries of a row is unchanged by re-indexing the row -/
theorem cnt_renum (G : ι → ι → ℝ) (σ : Equiv.Perm ι) (x : ι) :
    cnt (fun b => G (σ x) (σ b)) = cnt (G (σ x)) := by
  unfold cnt
  refine Finset.card_bij (fun b _ => σ b) ?_ ?_ ?_
  · intro b hb
    simpa only [mem_filter, mem_univ, true_and] using hb
  · intro a _ b _ hab
    exact σ.injective hab
  · intro y hy
    refine ⟨σ.symm y, ?_, σ.apply_symm_apply y⟩
    simpa only [mem_filter, mem_univ, true_and, Equiv.apply_symm_apply] using hy

/-- SMT-shaped forms: the renumbered matrix is a separate matrix `H` that agrees with the renumbering in every cell -/
theorem nbrsum_renum_cells (G H : ι → ι → ℝ) (σ : Equiv.Perm ι) (h : ∀ a b, H a b = G (σ a) (σ b)) :
    ∀ x, nbrsum H x = nbrsum G (σ x) := by
  intro x
  rw [matrix_ext_cells H (fun a b => G (σ a) (σ b)) h]
  exact nbrsum_renum G σ x

theorem cnt_renum_cells (G H : ι → ι → ℝ) (σ : Equiv.Perm ι) (h : ∀ a b, H a b = G (σ a) (σ b)) :
    ∀ x, cnt (H x) = cnt (G (σ x)) := by
  intro x
  rw [matrix_ext_cells H (fun a b => G (σ a) (σ b)) h]
  exact cnt_renum G σ x

end nbrrenum

-- (tenth batch, `section dijkstra`: definitions `wwalk`, `reachw`, `wd`; `wd_self`, `wd_nonneg`, `wd_le`, `le_wd`, `wd_approx`, `wd_attained`
--  (the infimum is a minimum), `wd_relax`, `wd_triangle`, `wwalk_cross(_wd)`, `dijkstra_lower`, `dijkstra_step`, `dijkstra_step_le`,
--  `dijkstra_step_inv`, `dijkstra_step_T`, `dijkstra_init`, `dijkstra_exhausted`, `dijkstra_smt`, `wd_smt`, `reachw_iff_sdist`, `reachw_iff_walk(_pos)`, `wd_pos`, `wd_pred`:
--  all proved.)
-- (eleventh batch, `section floyd`: definition `swalk` (walks with intermediate nodes restricted to `S`); `swalk_zero`, `swalk_one`, `swalk_succ`,
--  `swalk_pos`, `swalk_snoc`, `swalk_empty`, `swalk_mono`, `swalk_nonneg`, `swalk_concat`, `swalk_insert` (the Floyd–Warshall step),
--  `swalk_of_wwalk`, `wwalk_of_swalk`, `swalk_wd`, `swalk_lower`, `floyd_smt`: all proved.)
-- (twelfth batch, `section wdbinary`: on a 0/1 matrix the weighted distance is the hop distance (`wd_binary`, `wd_binary_smt`, `wwalk_binary_len`,
--  `wwalk_binary_of_walk`); the hop distance depends only on the support (`walk_congr_support`, `sdist_congr_support`): all proved.)
-- (thirteenth batch, `section pointwise`: `matrix_ext_cells`, `wd_congr_cells`, `sdist_congr_cells`, `tot_congr_cells`: all proved.)
-- (fourteenth batch, `section renumber`: `walk_renum`, `sdist_renum`, `wwalk_renum`, `reachw_renum`, `wd_renum`, `tot_renum` and the cell forms
--  `sdist_renum_cells`, `wd_renum_cells`, `tot_renum_cells`: all proved.)
-- (fifteenth batch, `section diagcount`: `ccnt_congr_support`, `cnt1_congr_support`, `ccnt_diag_set`, `cnt1_diag_set`: all proved.)
-- (sixteenth batch, `section nestcount`: `ccnt_le_dset`, `cnt_le_rset`, `ccnt_pos_of_witness`, `cnt_pos_of_witness`, `csum_le_wset`: all proved.)
-- (seventeenth batch, `section csumpos`: `csum_pos_of_witness`: proved.)
-- (eighteenth batch, `section cellsum`: `tot_eq_sum_enumeration`, `tot_eq_sum_enumeration_of_inj_surj`: all proved.)
-- (nineteenth batch, `section nbrsum`: definition `nbrsum`; `sum_enum_pairs`, `nbrsum_enum`, `card_enum` (helpers `nbr_image_enum`, `nbr_sum_enum`): all proved.)
-- (twentieth batch, `section nbrrenum`: `nbrsum_renum`, `cnt_renum`, `nbrsum_renum_cells`, `cnt_renum_cells`: all proved.)

end VerifLemmas
