/-
ExtractedProofs.lean — stored, hand-written proof scripts about the definitions that engine/lean/extract.py GENERATES from the
current bctpy source (Extracted.lean).  This file has no imports of its own: checks/lean_extract.py concatenates
  Extracted.lean (generated on every run)  ++  ExtractedProofs.lean (this file)  ++  `#print axioms` footer
into build/<run>/Combined.lean and runs `lean` on it.  A change of the library code changes the generated definitions; the
theorems below are then re-checked against the new terms and the ones that no longer hold are reported by name.

Every theorem that counts as an obligation is preceded by a line   --@ <property ids> : <bct functions>   (sections: C09, C10, C04, C14, C02, C18, C15, C19)
No `sorry`, no `axiom` (scanned on every run; `#print axioms` must list only propext / Classical.choice / Quot.sound).

Conventions: `cbrt` is the abstract cube root (hypotheses `cbrt x ^ 3 = x`, `cbrt 0 = 0`, `cbrt 1 = 1` are passed where needed),
`renum σ A = fun i j => A (σ i) (σ j)` is the renumbered network, `ind x = if x ≠ 0 then 1 else 0`.
The proofs do not mention the extracted terms literally: they unfold the definition and normalise (distribute products over sums,
commute summations, `ring1`), so renaming locals, reordering independent statements or re-associating `S·(S·S)` as `(S·S)·S`
in the Python source does not break them.
-/
set_option autoImplicit false
set_option linter.unusedTactic false
set_option linter.unreachableTactic false
set_option linter.unnecessarySeqFocus false
set_option linter.unusedVariables false

/-! ## Prelude: tactics and code-independent lemmas -/
namespace Extracted
open BigOperators Finset

section prelude
variable {n : ℕ}

/-- renumbering: closes `t[σ-images of all bound indices] = t` by reindexing every sum (and ∃) along `σ`, innermost last -/
syntax "perm_sum " term : tactic
macro_rules
| `(tactic| perm_sum $σ) => `(tactic|
    first
    | rfl
    | (refine Fintype.sum_equiv $σ _ _ (fun _ => ?_); beta_reduce; perm_sum $σ)
    | (refine propext (Equiv.exists_congr $σ (fun _ => Iff.of_eq ?_)); beta_reduce; perm_sum $σ)
    | (congr 1 <;> perm_sum $σ))

/-- closes `two nested sums = two nested sums` up to distributing products over the inner sums, the order of the two
summations and ring normalisation of the summand (robust against re-association of a triple matrix product) -/
macro "sum2_ring" : tactic => `(tactic| (
  simp only [Finset.mul_sum, Finset.sum_mul, Finset.sum_div]
  first
  | (refine Finset.sum_congr rfl (fun _ _ => Finset.sum_congr rfl (fun _ _ => ?_)); ring1)
  | (rw [Finset.sum_comm] <;> (refine Finset.sum_congr rfl (fun _ _ => Finset.sum_congr rfl (fun _ _ => ?_)); ring1))))


macro "node_close" : tactic => `(tactic| first | rfl | ring1 | sum2_ring)
macro "vec_close" : tactic =>
  `(tactic| first | rfl | ring1 | (refine Finset.sum_congr rfl (fun _ _ => ?_); node_close))

lemma ite_div_congr {a a' d d' : ℝ} (ha : a = a') (hd : d = d') :
    (if a = 0 then (0:ℝ) else a / d) = (if a' = 0 then 0 else a' / d') := by subst ha hd; rfl

/-- 0/1 indicator of `x ≠ 0` -/
noncomputable def ind (x : ℝ) : ℝ := if x ≠ 0 then 1 else 0

lemma ind_not (x : ℝ) : (if ¬(x = 0) then (1:ℝ) else 0) = ind x := rfl
lemma ind_binarize (x : ℝ) : (if x ≠ 0 then (1:ℝ) else x) = ind x := by
  unfold ind; by_cases h : x = 0 <;> simp [h]
lemma ind_01 {x : ℝ} (h : x = 0 ∨ x = 1) : ind x = x := by
  unfold ind; rcases h with h | h <;> simp [h]
lemma ind_mul_self (x : ℝ) : ind x * ind x = ind x := by
  unfold ind; by_cases h : x = 0 <;> simp [h]
lemma cbrt_01 {cbrt : ℝ → ℝ} (h0 : cbrt 0 = 0) (h1 : cbrt 1 = 1) {x : ℝ} (h : x = 0 ∨ x = 1) : cbrt x = x := by
  rcases h with h | h <;> simp [h, h0, h1]
lemma sq_01 {x : ℝ} (h : x = 0 ∨ x = 1) : x * x = x := by
  rcases h with h | h <;> simp [h]

/-- off-diagonal sum = full sum − diagonal -/
lemma sum_offdiag (f : Fin n → Fin n → ℝ) :
    ∑ i, ∑ j, (if i ≠ j then f i j else 0) = (∑ i, ∑ j, f i j) - ∑ i, f i i := by
  rw [← Finset.sum_sub_distrib]
  refine Finset.sum_congr rfl (fun i _ => ?_)
  have : ∀ j, (if i ≠ j then f i j else 0) = f i j - (if i = j then f i j else 0) := by
    intro j; by_cases h : i = j <;> simp [h]
  simp only [this, Finset.sum_sub_distrib, Finset.sum_ite_eq, Finset.mem_univ, if_true]

/-- upper-triangle sum of a symmetric kernel -/
lemma sum_upper_symm (f : Fin n → Fin n → ℝ) (hf : ∀ i j, f i j = f j i) :
    2 * ∑ i, ∑ j, (if i ≤ j then f i j else 0) = (∑ i, ∑ j, f i j) + ∑ i, f i i := by
  have h2 : ∑ i, ∑ j, (if i ≤ j then f i j else 0) = ∑ i, ∑ j, (if j ≤ i then f i j else 0) := by
    rw [Finset.sum_comm]
    refine Finset.sum_congr rfl (fun i _ => Finset.sum_congr rfl (fun j _ => ?_))
    rw [hf j i]
  have h3 : ∀ i j : Fin n, (if i ≤ j then f i j else 0) + (if j ≤ i then f i j else 0)
      = f i j + (if i = j then f i j else 0) := by
    intro i j
    rcases lt_trichotomy i j with h | h | h
    · simp [h.le, not_le.mpr h, h.ne]
    · subst h; simp
    · simp [h.le, not_le.mpr h, h.ne']
  calc 2 * ∑ i, ∑ j, (if i ≤ j then f i j else 0)
      = (∑ i, ∑ j, (if i ≤ j then f i j else 0)) + ∑ i, ∑ j, (if j ≤ i then f i j else 0) := by rw [← h2]; ring
    _ = ∑ i, ∑ j, (f i j + (if i = j then f i j else 0)) := by
        simp only [← Finset.sum_add_distrib, h3]
    _ = _ := by
        simp only [Finset.sum_add_distrib, Finset.sum_ite_eq, Finset.mem_univ, if_true]

end prelude
end Extracted

/-! ## C09 — clustering coefficients and transitivity equal their triangle definitions (enumeration over node triples) -/
namespace Extracted
open BigOperators Finset

section C09
variable {n : ℕ}

/-- Fagiolo's directed triangle count around `i`: half the sum over ordered pairs (j, h) of
(a_ij + a_ji)(a_jh + a_hj)(a_hi + a_ih) -/
noncomputable def tri_d (A : Fin n → Fin n → ℝ) (i : Fin n) : ℝ :=
  (1 / 2) * ∑ j, ∑ h, (A i j + A j i) * (A j h + A h j) * (A h i + A i h)
/-- possible directed triangles around `i`: d_tot (d_tot − 1) − 2 · #(bilateral edges), with the degrees of `D` -/
noncomputable def trip_d (D : Fin n → Fin n → ℝ) (i : Fin n) : ℝ :=
  (∑ j, (D i j + D j i)) * ((∑ j, (D i j + D j i)) - 1) - 2 * ∑ j, D i j * D j i
/-- undirected weighted triangle intensity around `i` (no factor: every triangle is met in both orientations) -/
noncomputable def tri_u (A : Fin n → Fin n → ℝ) (i : Fin n) : ℝ :=
  ∑ j, ∑ h, A i j * A j h * A h i
/-- k (k − 1) with k the number of non-zero entries of row `i` -/
noncomputable def trip_u (W : Fin n → Fin n → ℝ) (i : Fin n) : ℝ :=
  (∑ j, ind (W i j)) * ((∑ j, ind (W i j)) - 1)

--@ C09 : clustering_coef_bd
theorem clustering_coef_bd_def (A : Fin n → Fin n → ℝ) (i : Fin n) :
    clustering_coef_bd A i = if tri_d A i = 0 then 0 else tri_d A i / trip_d A i := by
  simp only [clustering_coef_bd, tri_d, trip_d]
  refine ite_div_congr ?_ ?_ <;> node_close

--@ C09 : clustering_coef_bd
theorem clustering_coef_bd_zero (A : Fin n → Fin n → ℝ) (i : Fin n) (h : tri_d A i = 0) :
    clustering_coef_bd A i = 0 := by
  rw [clustering_coef_bd_def, if_pos h]

--@ C09 : clustering_coef_wd
theorem clustering_coef_wd_def (cbrt : ℝ → ℝ) (W : Fin n → Fin n → ℝ) (i : Fin n) :
    clustering_coef_wd cbrt W i
      = if tri_d (fun a b => cbrt (W a b)) i = 0 then 0
        else tri_d (fun a b => cbrt (W a b)) i / trip_d (fun a b => ind (W a b)) i := by
  simp only [clustering_coef_wd, tri_d, trip_d, ind_not]
  refine ite_div_congr ?_ ?_ <;> node_close

--@ C09 : clustering_coef_wd
theorem clustering_coef_wd_zero (cbrt : ℝ → ℝ) (W : Fin n → Fin n → ℝ) (i : Fin n)
    (h : tri_d (fun a b => cbrt (W a b)) i = 0) : clustering_coef_wd cbrt W i = 0 := by
  rw [clustering_coef_wd_def, if_pos h]

--@ C09 : clustering_coef_wu
theorem clustering_coef_wu_def (cbrt : ℝ → ℝ) (W : Fin n → Fin n → ℝ) (i : Fin n) :
    clustering_coef_wu cbrt W i
      = if tri_u (fun a b => cbrt (W a b)) i = 0 then 0
        else tri_u (fun a b => cbrt (W a b)) i / trip_u W i := by
  simp only [clustering_coef_wu, tri_u, trip_u, ind_not]
  refine ite_div_congr ?_ ?_ <;> node_close

--@ C09 : clustering_coef_wu
theorem clustering_coef_wu_zero (cbrt : ℝ → ℝ) (W : Fin n → Fin n → ℝ) (i : Fin n)
    (h : tri_u (fun a b => cbrt (W a b)) i = 0) : clustering_coef_wu cbrt W i = 0 := by
  rw [clustering_coef_wu_def, if_pos h]

/-- transitivity: ratio of the TOTALS, no per-node masking -/
--@ C09 : transitivity_bd
theorem transitivity_bd_def (A : Fin n → Fin n → ℝ) :
    transitivity_bd A = (∑ i, tri_d A i) / (∑ i, trip_d A i) := by
  simp only [transitivity_bd, tri_d, trip_d]
  congr 1 <;> vec_close

--@ C09 : transitivity_wd
theorem transitivity_wd_def (cbrt : ℝ → ℝ) (W : Fin n → Fin n → ℝ) :
    transitivity_wd cbrt W
      = (∑ i, tri_d (fun a b => cbrt (W a b)) i) / (∑ i, trip_d (fun a b => ind (W a b)) i) := by
  simp only [transitivity_wd, tri_d, trip_d, ind_not]
  congr 1 <;> vec_close

--@ C09 : transitivity_wu
theorem transitivity_wu_def (cbrt : ℝ → ℝ) (W : Fin n → Fin n → ℝ) :
    transitivity_wu cbrt W = (∑ i, tri_u (fun a b => cbrt (W a b)) i) / (∑ i, trip_u W i) := by
  simp only [transitivity_wu, tri_u, trip_u, ind_not]
  congr 1 <;> vec_close

/-- binary undirected: closed 3-walks over 2-paths between DISTINCT end nodes -/
--@ C09 : transitivity_bu
theorem transitivity_bu_def (A : Fin n → Fin n → ℝ) :
    transitivity_bu A
      = (∑ i, tri_u A i) / (∑ i, ∑ j, (if i ≠ j then ∑ h, A i h * A h j else 0)) := by
  rw [sum_offdiag (fun i j => ∑ h, A i h * A h j)]
  simp only [transitivity_bu, tri_u]
  congr 1 <;> vec_close

/-- the weighted forms use the geometric mean of the three weights: (∛a ∛b ∛c)³ = a b c -/
--@ C09 : cuberoot
theorem triangle_intensity_cube (cbrt : ℝ → ℝ) (hc : ∀ x, cbrt x ^ 3 = x) (a b c : ℝ) :
    (cbrt a * cbrt b * cbrt c) ^ 3 = a * b * c := by
  rw [mul_pow, mul_pow, hc, hc, hc]

end C09
end Extracted

/-! ## C10 — weighted reduces to binary on 0/1 input, directed to undirected on symmetric input -/
namespace Extracted
open BigOperators Finset

section C10
variable {n : ℕ}

--@ C10 : strengths_und, degrees_und
theorem strengths_und_eq_degrees_und (A : Fin n → Fin n → ℝ) (h01 : ∀ i j, A i j = 0 ∨ A i j = 1) :
    strengths_und A = degrees_und A := by
  funext i
  simp only [strengths_und, degrees_und, ind_binarize, ind_01 (h01 _ _)]

--@ C10 : strengths_dir, degrees_dir
theorem strengths_dir_eq_degrees_dir (A : Fin n → Fin n → ℝ) (h01 : ∀ i j, A i j = 0 ∨ A i j = 1) :
    strengths_dir A = degrees_dir_ret2 A := by
  funext i
  simp only [strengths_dir, degrees_dir_ret2, ind_binarize, ind_01 (h01 _ _)] <;> first | rfl | ring1

/-- in-degree of degrees_dir is the degree of degrees_und (column counts), for every matrix -/
--@ C10 : degrees_dir, degrees_und
theorem degrees_dir_in_eq_degrees_und (A : Fin n → Fin n → ℝ) : degrees_dir_ret0 A = degrees_und A := by
  funext i
  simp only [degrees_dir_ret0, degrees_und]

--@ C10 : degrees_dir, degrees_und
theorem degrees_dir_out_eq_degrees_und (A : Fin n → Fin n → ℝ) (hs : ∀ i j, A i j = A j i) :
    degrees_dir_ret1 A = degrees_und A := by
  funext i
  unfold degrees_dir_ret1 degrees_und
  first
  | rfl
  | (refine Finset.sum_congr rfl (fun k _ => ?_); rw [hs i k])

--@ C10 : degrees_dir
theorem degrees_dir_total (A : Fin n → Fin n → ℝ) :
    degrees_dir_ret2 A = fun i => degrees_dir_ret0 A i + degrees_dir_ret1 A i := by
  funext i
  simp only [degrees_dir_ret0, degrees_dir_ret1, degrees_dir_ret2] <;> first | rfl | ring1

--@ C10 : clustering_coef_wd, clustering_coef_bd
theorem clustering_coef_wd_eq_bd (cbrt : ℝ → ℝ) (h0 : cbrt 0 = 0) (h1 : cbrt 1 = 1)
    (A : Fin n → Fin n → ℝ) (h01 : ∀ i j, A i j = 0 ∨ A i j = 1) :
    clustering_coef_wd cbrt A = clustering_coef_bd A := by
  funext i
  have ht : tri_d (fun a b => cbrt (A a b)) i = tri_d A i := by simp only [tri_d, cbrt_01 h0 h1 (h01 _ _)]
  have hp : trip_d (fun a b => ind (A a b)) i = trip_d A i := by simp only [trip_d, ind_01 (h01 _ _)]
  rw [clustering_coef_wd_def, clustering_coef_bd_def, ht, hp]

--@ C10 : transitivity_wd, transitivity_bd
theorem transitivity_wd_eq_bd (cbrt : ℝ → ℝ) (h0 : cbrt 0 = 0) (h1 : cbrt 1 = 1)
    (A : Fin n → Fin n → ℝ) (h01 : ∀ i j, A i j = 0 ∨ A i j = 1) :
    transitivity_wd cbrt A = transitivity_bd A := by
  rw [transitivity_wd_def, transitivity_bd_def]
  simp only [tri_d, trip_d, cbrt_01 h0 h1 (h01 _ _), ind_01 (h01 _ _)]

/-! ### symmetric input: directed forms equal undirected forms -/

lemma tri_d_symm (A : Fin n → Fin n → ℝ) (hs : ∀ i j, A i j = A j i) (i : Fin n) :
    tri_d A i = 4 * tri_u A i := by
  simp only [tri_d, tri_u, Finset.mul_sum]
  refine Finset.sum_congr rfl (fun j _ => Finset.sum_congr rfl (fun h _ => ?_))
  rw [hs j i, hs h j, hs i h]; ring

lemma trip_d_ind_symm (W : Fin n → Fin n → ℝ) (hs : ∀ i j, W i j = W j i) (i : Fin n) :
    trip_d (fun a b => ind (W a b)) i = 4 * trip_u W i := by
  simp only [trip_d, trip_u]
  have h1 : ∀ j, ind (W i j) + ind (W j i) = 2 * ind (W i j) := by intro j; rw [hs j i]; ring
  have h2 : ∀ j, ind (W i j) * ind (W j i) = ind (W i j) := by intro j; rw [hs j i, ind_mul_self]
  simp only [h1, h2, ← Finset.mul_sum]
  ring

--@ C10 : clustering_coef_wd, clustering_coef_wu
theorem clustering_coef_wd_eq_wu (cbrt : ℝ → ℝ) (W : Fin n → Fin n → ℝ) (hs : ∀ i j, W i j = W j i) :
    clustering_coef_wd cbrt W = clustering_coef_wu cbrt W := by
  funext i
  rw [clustering_coef_wd_def, clustering_coef_wu_def,
    tri_d_symm (fun a b => cbrt (W a b)) (fun a b => by simp only [hs a b]) i, trip_d_ind_symm W hs i]
  by_cases h : tri_u (fun a b => cbrt (W a b)) i = 0
  · simp [h]
  · have h4 : (4:ℝ) * tri_u (fun a b => cbrt (W a b)) i ≠ 0 := mul_ne_zero (by norm_num) h
    rw [if_neg h, if_neg h4, mul_div_mul_left _ _ (by norm_num : (4:ℝ) ≠ 0)]

--@ C10 : transitivity_wd, transitivity_wu
theorem transitivity_wd_eq_wu (cbrt : ℝ → ℝ) (W : Fin n → Fin n → ℝ) (hs : ∀ i j, W i j = W j i) :
    transitivity_wd cbrt W = transitivity_wu cbrt W := by
  rw [transitivity_wd_def, transitivity_wu_def]
  simp only [tri_d_symm (fun a b => cbrt (W a b)) (fun a b => by simp only [hs a b]), trip_d_ind_symm W hs,
    ← Finset.mul_sum]
  rw [mul_div_mul_left _ _ (by norm_num : (4:ℝ) ≠ 0)]

/-- for a symmetric 0/1 matrix: Σ_i k_i (k_i − 1) = #2-paths between distinct nodes -/
lemma trip_u_total_01 (A : Fin n → Fin n → ℝ) (hs : ∀ i j, A i j = A j i) (h01 : ∀ i j, A i j = 0 ∨ A i j = 1) :
    ∑ i, trip_u A i = (∑ i, ∑ j, ∑ h, A i h * A h j) - ∑ i, ∑ h, A i h * A h i := by
  simp only [trip_u, ind_01 (h01 _ _)]
  have e1 : ∀ i, (∑ j, A i j) * ((∑ j, A i j) - 1) = (∑ j, ∑ h, A i j * A i h) - ∑ h, A i h * A h i := by
    intro i
    rw [mul_sub, mul_one, Finset.sum_mul_sum]
    congr 1
    refine Finset.sum_congr rfl (fun h _ => ?_)
    rw [← hs i h, sq_01 (h01 i h)]
  simp only [e1, Finset.sum_sub_distrib]
  congr 1
  -- Σ_i Σ_j Σ_h A i j * A i h = Σ_i Σ_j Σ_h A i h * A h j : rename the centre node
  calc ∑ i, ∑ j, ∑ h, A i j * A i h
      = ∑ i, ∑ j, ∑ h, A j i * A i h := by
        refine Finset.sum_congr rfl (fun i _ => Finset.sum_congr rfl (fun j _ => Finset.sum_congr rfl (fun h _ => ?_)))
        rw [hs i j]
    _ = ∑ j, ∑ i, ∑ h, A j i * A i h := Finset.sum_comm
    _ = ∑ j, ∑ h, ∑ i, A j i * A i h := by
        refine Finset.sum_congr rfl (fun j _ => ?_); exact Finset.sum_comm
    _ = _ := rfl

--@ C10 : transitivity_wu, transitivity_bu
theorem transitivity_wu_eq_bu (cbrt : ℝ → ℝ) (h0 : cbrt 0 = 0) (h1 : cbrt 1 = 1)
    (A : Fin n → Fin n → ℝ) (hs : ∀ i j, A i j = A j i) (h01 : ∀ i j, A i j = 0 ∨ A i j = 1) :
    transitivity_wu cbrt A = transitivity_bu A := by
  rw [transitivity_wu_def, transitivity_bu_def, sum_offdiag (fun i j => ∑ h, A i h * A h j),
    trip_u_total_01 A hs h01]
  simp only [tri_u, cbrt_01 h0 h1 (h01 _ _)]

--@ C10 : transitivity_bd, transitivity_bu
theorem transitivity_bd_eq_bu (A : Fin n → Fin n → ℝ) (hs : ∀ i j, A i j = A j i)
    (h01 : ∀ i j, A i j = 0 ∨ A i j = 1) : transitivity_bd A = transitivity_bu A := by
  have hd : ∀ i, trip_d A i = trip_d (fun a b => ind (A a b)) i := by
    intro i; simp only [trip_d, ind_01 (h01 _ _)]
  rw [transitivity_bd_def, transitivity_bu_def, sum_offdiag (fun i j => ∑ h, A i h * A h j),
    ← trip_u_total_01 A hs h01]
  simp only [hd, tri_d_symm A hs, trip_d_ind_symm A hs, ← Finset.mul_sum]
  rw [mul_div_mul_left _ _ (by norm_num : (4:ℝ) ≠ 0)]

end C10
end Extracted

/-! ## C04 — equivariance under renumbering of the nodes (σ any permutation of Fin n) -/
namespace Extracted
open BigOperators Finset

section C04
variable {n : ℕ}

/-- the renumbered network -/
def renum (σ : Equiv.Perm (Fin n)) (A : Fin n → Fin n → ℝ) : Fin n → Fin n → ℝ := fun i j => A (σ i) (σ j)

--@ C04 : degrees_und
theorem degrees_und_equivariant (σ : Equiv.Perm (Fin n)) (A : Fin n → Fin n → ℝ) :
    degrees_und (renum σ A) = fun i => degrees_und A (σ i) := by
  funext i; simp only [degrees_und, renum]; perm_sum σ

--@ C04 : degrees_dir
theorem degrees_dir_in_equivariant (σ : Equiv.Perm (Fin n)) (A : Fin n → Fin n → ℝ) :
    degrees_dir_ret0 (renum σ A) = fun i => degrees_dir_ret0 A (σ i) := by
  funext i; simp only [degrees_dir_ret0, renum]; perm_sum σ

--@ C04 : degrees_dir
theorem degrees_dir_out_equivariant (σ : Equiv.Perm (Fin n)) (A : Fin n → Fin n → ℝ) :
    degrees_dir_ret1 (renum σ A) = fun i => degrees_dir_ret1 A (σ i) := by
  funext i; simp only [degrees_dir_ret1, renum]; perm_sum σ

--@ C04 : degrees_dir
theorem degrees_dir_total_equivariant (σ : Equiv.Perm (Fin n)) (A : Fin n → Fin n → ℝ) :
    degrees_dir_ret2 (renum σ A) = fun i => degrees_dir_ret2 A (σ i) := by
  funext i; simp only [degrees_dir_ret2, renum]; perm_sum σ

--@ C04 : strengths_und
theorem strengths_und_equivariant (σ : Equiv.Perm (Fin n)) (A : Fin n → Fin n → ℝ) :
    strengths_und (renum σ A) = fun i => strengths_und A (σ i) := by
  funext i; simp only [strengths_und, renum]; perm_sum σ

--@ C04 : strengths_dir
theorem strengths_dir_equivariant (σ : Equiv.Perm (Fin n)) (A : Fin n → Fin n → ℝ) :
    strengths_dir (renum σ A) = fun i => strengths_dir A (σ i) := by
  funext i; simp only [strengths_dir, renum]; perm_sum σ

--@ C04 : density_dir
theorem density_dir_invariant (σ : Equiv.Perm (Fin n)) (A : Fin n → Fin n → ℝ) :
    density_dir_ret0 (renum σ A) = density_dir_ret0 A ∧ density_dir_ret1 (renum σ A) = density_dir_ret1 A
      ∧ density_dir_ret2 (renum σ A) = density_dir_ret2 A := by
  refine ⟨?_, ?_, ?_⟩
  · simp only [density_dir_ret0, renum]; perm_sum σ
  · simp only [density_dir_ret1]
  · simp only [density_dir_ret2, renum]; perm_sum σ

/-- density_und counts the upper triangle only: invariant for SYMMETRIC matrices (its documented domain) -/
--@ C04 : density_und
theorem density_und_invariant (σ : Equiv.Perm (Fin n)) (A : Fin n → Fin n → ℝ) (hs : ∀ i j, A i j = A j i) :
    density_und_ret0 (renum σ A) = density_und_ret0 A ∧ density_und_ret1 (renum σ A) = density_und_ret1 A
      ∧ density_und_ret2 (renum σ A) = density_und_ret2 A := by
  have key : ∀ B : Fin n → Fin n → ℝ, (∀ i j, B i j = B j i) →
      (2:ℝ) * density_und_ret2 B = (∑ i, ∑ j, ind (B i j)) + ∑ i, ind (B i i) := by
    intro B hB
    rw [← sum_upper_symm (fun i j => ind (B i j)) (fun i j => by simp only [hB i j])]
    simp only [density_und_ret2]
    congr 1
    refine Finset.sum_congr rfl (fun i _ => Finset.sum_congr rfl (fun j _ => ?_))
    by_cases h : i ≤ j <;> simp [h, ind]
  have h2 : density_und_ret2 (renum σ A) = density_und_ret2 A := by
    have e : (2:ℝ) * density_und_ret2 (renum σ A) = 2 * density_und_ret2 A := by
      rw [key A hs, key (renum σ A) (fun i j => hs (σ i) (σ j))]
      simp only [renum]
      congr 1 <;> perm_sum σ
    exact mul_left_cancel₀ (by norm_num : (2:ℝ) ≠ 0) e
  refine ⟨?_, ?_, h2⟩
  · have e0 : ∀ B : Fin n → Fin n → ℝ, density_und_ret0 B = density_und_ret2 B / ((((n:ℝ) * (n:ℝ)) - (n:ℝ)) / 2) := by
      intro B; simp only [density_und_ret0, density_und_ret2]
    rw [e0, e0, h2]
  · simp only [density_und_ret1]

--@ C04 : clustering_coef_bd
theorem clustering_coef_bd_equivariant (σ : Equiv.Perm (Fin n)) (A : Fin n → Fin n → ℝ) :
    clustering_coef_bd (renum σ A) = fun i => clustering_coef_bd A (σ i) := by
  funext i; simp only [clustering_coef_bd, renum]; perm_sum σ

--@ C04 : clustering_coef_wd
theorem clustering_coef_wd_equivariant (cbrt : ℝ → ℝ) (σ : Equiv.Perm (Fin n)) (W : Fin n → Fin n → ℝ) :
    clustering_coef_wd cbrt (renum σ W) = fun i => clustering_coef_wd cbrt W (σ i) := by
  funext i; simp only [clustering_coef_wd, renum]; perm_sum σ

--@ C04 : clustering_coef_wu
theorem clustering_coef_wu_equivariant (cbrt : ℝ → ℝ) (σ : Equiv.Perm (Fin n)) (W : Fin n → Fin n → ℝ) :
    clustering_coef_wu cbrt (renum σ W) = fun i => clustering_coef_wu cbrt W (σ i) := by
  funext i; simp only [clustering_coef_wu, renum]; perm_sum σ

--@ C04 : transitivity_bu
theorem transitivity_bu_invariant (σ : Equiv.Perm (Fin n)) (A : Fin n → Fin n → ℝ) :
    transitivity_bu (renum σ A) = transitivity_bu A := by
  simp only [transitivity_bu, renum]; perm_sum σ

--@ C04 : transitivity_bd
theorem transitivity_bd_invariant (σ : Equiv.Perm (Fin n)) (A : Fin n → Fin n → ℝ) :
    transitivity_bd (renum σ A) = transitivity_bd A := by
  simp only [transitivity_bd, renum]; perm_sum σ

--@ C04 : transitivity_wu
theorem transitivity_wu_invariant (cbrt : ℝ → ℝ) (σ : Equiv.Perm (Fin n)) (W : Fin n → Fin n → ℝ) :
    transitivity_wu cbrt (renum σ W) = transitivity_wu cbrt W := by
  simp only [transitivity_wu, renum]; perm_sum σ

--@ C04 : transitivity_wd
theorem transitivity_wd_invariant (cbrt : ℝ → ℝ) (σ : Equiv.Perm (Fin n)) (W : Fin n → Fin n → ℝ) :
    transitivity_wd cbrt (renum σ W) = transitivity_wd cbrt W := by
  simp only [transitivity_wd, renum]; perm_sum σ

/-- bonus: the given-partition modularity is unchanged when network and partition are renumbered together -/
--@ C04 : modularity_und
theorem modularity_und_invariant (σ : Equiv.Perm (Fin n)) (A : Fin n → Fin n → ℝ) (γ : ℝ) (ci : Fin n → ℝ) :
    modularity_und_ret1 (renum σ A) γ (fun i => ci (σ i)) = modularity_und_ret1 A γ ci := by
  simp only [modularity_und_ret1, renum]; perm_sum σ

--@ C04 : modularity_dir
theorem modularity_dir_invariant (σ : Equiv.Perm (Fin n)) (A : Fin n → Fin n → ℝ) (γ : ℝ) (ci : Fin n → ℝ) :
    modularity_dir_ret1 (renum σ A) γ (fun i => ci (σ i)) = modularity_dir_ret1 A γ ci := by
  simp only [modularity_dir_ret1, renum]; perm_sum σ

end C04
end Extracted

/-! ## C14 — the given-partition modularity depends on the labels only through `ci x = ci y` -/
namespace Extracted
open BigOperators Finset

section C14
variable {n : ℕ}

--@ C14 : modularity_und
theorem modularity_und_label_invariant (A : Fin n → Fin n → ℝ) (γ : ℝ) (ci : Fin n → ℝ)
    (g : ℝ → ℝ) (hg : Function.Injective g) :
    modularity_und_ret1 A γ (fun i => g (ci i)) = modularity_und_ret1 A γ ci := by
  simp only [modularity_und_ret1, sub_eq_zero, hg.eq_iff]

--@ C14 : modularity_dir
theorem modularity_dir_label_invariant (A : Fin n → Fin n → ℝ) (γ : ℝ) (ci : Fin n → ℝ)
    (g : ℝ → ℝ) (hg : Function.Injective g) :
    modularity_dir_ret1 A γ (fun i => g (ci i)) = modularity_dir_ret1 A γ ci := by
  simp only [modularity_dir_ret1, sub_eq_zero, hg.eq_iff]

/-- the value is a function of the co-membership relation alone: two label vectors inducing the same partition give the same q -/
--@ C14 : modularity_und
theorem modularity_und_partition_only (A : Fin n → Fin n → ℝ) (γ : ℝ) (c c' : Fin n → ℝ)
    (h : ∀ x y, c x = c y ↔ c' x = c' y) : modularity_und_ret1 A γ c = modularity_und_ret1 A γ c' := by
  simp only [modularity_und_ret1, sub_eq_zero, h]

--@ C14 : modularity_dir
theorem modularity_dir_partition_only (A : Fin n → Fin n → ℝ) (γ : ℝ) (c c' : Fin n → ℝ)
    (h : ∀ x y, c x = c y ↔ c' x = c' y) : modularity_dir_ret1 A γ c = modularity_dir_ret1 A γ c' := by
  simp only [modularity_dir_ret1, sub_eq_zero, h]

/-- modularity_und_sign, one extracted definition per documented qtype: `canon` is np.unique(·, return_inverse=True)[1], specified
only by `canon c x = canon c y ↔ c x = c y`; Kn0, Kn1 (accumulated by a loop over modules, not extracted) are FREE parameters:
the theorems cover the final co-membership mask `(m == m.T)` and the canonicalisation on entry only. -/
--@ C14 : modularity_und_sign
theorem modularity_und_sign_sta_label_invariant (canon : (Fin n → ℝ) → Fin n → ℝ)
    (hcanon : ∀ c x y, canon c x = canon c y ↔ c x = c y)
    (W : Fin n → Fin n → ℝ) (ci Kn0 Kn1 : Fin n → ℝ) (g : ℝ → ℝ) (hg : Function.Injective g) :
    modularity_und_sign_sta_ret1 canon W (fun i => g (ci i)) Kn0 Kn1 = modularity_und_sign_sta_ret1 canon W ci Kn0 Kn1 := by
  simp only [modularity_und_sign_sta_ret1, add_left_inj, hcanon, hg.eq_iff]

--@ C14 : modularity_und_sign
theorem modularity_und_sign_smp_label_invariant (canon : (Fin n → ℝ) → Fin n → ℝ)
    (hcanon : ∀ c x y, canon c x = canon c y ↔ c x = c y)
    (W : Fin n → Fin n → ℝ) (ci Kn0 Kn1 : Fin n → ℝ) (g : ℝ → ℝ) (hg : Function.Injective g) :
    modularity_und_sign_smp_ret1 canon W (fun i => g (ci i)) Kn0 Kn1 = modularity_und_sign_smp_ret1 canon W ci Kn0 Kn1 := by
  simp only [modularity_und_sign_smp_ret1, add_left_inj, hcanon, hg.eq_iff]

--@ C14 : modularity_und_sign
theorem modularity_und_sign_gja_label_invariant (canon : (Fin n → ℝ) → Fin n → ℝ)
    (hcanon : ∀ c x y, canon c x = canon c y ↔ c x = c y)
    (W : Fin n → Fin n → ℝ) (ci Kn0 Kn1 : Fin n → ℝ) (g : ℝ → ℝ) (hg : Function.Injective g) :
    modularity_und_sign_gja_ret1 canon W (fun i => g (ci i)) Kn0 Kn1 = modularity_und_sign_gja_ret1 canon W ci Kn0 Kn1 := by
  simp only [modularity_und_sign_gja_ret1, add_left_inj, hcanon, hg.eq_iff]

--@ C14 : modularity_und_sign
theorem modularity_und_sign_pos_label_invariant (canon : (Fin n → ℝ) → Fin n → ℝ)
    (hcanon : ∀ c x y, canon c x = canon c y ↔ c x = c y)
    (W : Fin n → Fin n → ℝ) (ci Kn0 Kn1 : Fin n → ℝ) (g : ℝ → ℝ) (hg : Function.Injective g) :
    modularity_und_sign_pos_ret1 canon W (fun i => g (ci i)) Kn0 Kn1 = modularity_und_sign_pos_ret1 canon W ci Kn0 Kn1 := by
  simp only [modularity_und_sign_pos_ret1, add_left_inj, hcanon, hg.eq_iff]

--@ C14 : modularity_und_sign
theorem modularity_und_sign_neg_label_invariant (canon : (Fin n → ℝ) → Fin n → ℝ)
    (hcanon : ∀ c x y, canon c x = canon c y ↔ c x = c y)
    (W : Fin n → Fin n → ℝ) (ci Kn0 Kn1 : Fin n → ℝ) (g : ℝ → ℝ) (hg : Function.Injective g) :
    modularity_und_sign_neg_ret1 canon W (fun i => g (ci i)) Kn0 Kn1 = modularity_und_sign_neg_ret1 canon W ci Kn0 Kn1 := by
  simp only [modularity_und_sign_neg_ret1, add_left_inj, hcanon, hg.eq_iff]

end C14
end Extracted

set_option linter.unusedSimpArgs false

/-! ## C02 — modularity_und / _dir / _und_sign called with a partition return that partition's modularity (its DEFINITION) -/
namespace Extracted
open BigOperators Finset

section C02
variable {n : ℕ}

/-- total weight m = Σ_i Σ_j a_ij, out-strength, in-strength -/
noncomputable def mtot (A : Fin n → Fin n → ℝ) : ℝ := ∑ i, ∑ j, A i j
noncomputable def kout (A : Fin n → Fin n → ℝ) (i : Fin n) : ℝ := ∑ j, A i j
noncomputable def kin (A : Fin n → Fin n → ℝ) (j : Fin n) : ℝ := ∑ i, A i j

/-- DEFINITION of (directed) modularity of the partition given by the labels `ci` (Leicht & Newman 2008, resolution γ) -/
noncomputable def Qdef (A : Fin n → Fin n → ℝ) (γ : ℝ) (ci : Fin n → ℝ) : ℝ :=
  (1 / mtot A) * ∑ i, ∑ j, if ci i = ci j then (A i j - γ * kout A i * kin A j / mtot A) else 0

lemma mtot_comm (A : Fin n → Fin n → ℝ) : (∑ j, ∑ i, A i j) = mtot A := Finset.sum_comm

/-- co-membership mask written as the code writes it (label difference is zero), times a value -/
lemma mask_sub (p q x : ℝ) : (if q - p = 0 then (1:ℝ) else 0) * x = if p = q then x else 0 := by
  by_cases h : p = q
  · subst h; simp
  · have : ¬ (q - p = 0) := fun e => h (sub_eq_zero.mp e).symm
    simp [h, this]
lemma mask_eq_l (p q x : ℝ) : (if q = p then (1:ℝ) else 0) * x = if p = q then x else 0 := by
  by_cases h : p = q
  · subst h; simp
  · have : ¬ (q = p) := fun e => h e.symm
    simp [h, this]
lemma mask_eq_r (p q x : ℝ) : x * (if q = p then (1:ℝ) else 0) = if p = q then x else 0 := by
  rw [mul_comm, mask_eq_l]

/-- Σ_ij δ_ij (b_ij + b_ji) / (2M) = (1/M) Σ_ij δ_ij b_ij for a symmetric mask δ (no hypothesis on M) -/
lemma fold_transpose (δ b : Fin n → Fin n → ℝ) (hδ : ∀ i j, δ i j = δ j i) (M : ℝ) :
    ∑ i, ∑ j, (δ i j * (b i j + b j i)) / (2 * M) = (1 / M) * ∑ i, ∑ j, δ i j * b i j := by
  have h1 : ∑ i, ∑ j, δ i j * b j i = ∑ i, ∑ j, δ i j * b i j := by
    rw [Finset.sum_comm]
    refine Finset.sum_congr rfl (fun i _ => Finset.sum_congr rfl (fun j _ => ?_))
    rw [hδ j i]
  simp only [← Finset.sum_div, mul_add, Finset.sum_add_distrib, h1]
  rw [← two_mul, mul_div_mul_left _ _ (two_ne_zero), one_div, inv_mul_eq_div]

/-- co-membership mask and the modularity kernel b_ij = a_ij − γ kout_i kin_j / m -/
noncomputable def comask (ci : Fin n → ℝ) (i j : Fin n) : ℝ := if ci i = ci j then 1 else 0
noncomputable def bker (A : Fin n → Fin n → ℝ) (γ : ℝ) (i j : Fin n) : ℝ := A i j - γ * kout A i * kin A j / mtot A

lemma comask_symm (ci : Fin n → ℝ) (i j : Fin n) : comask ci i j = comask ci j i := by
  unfold comask; by_cases h : ci i = ci j
  · rw [if_pos h, if_pos h.symm]
  · rw [if_neg h, if_neg (fun e => h e.symm)]

lemma Qdef_eq (A : Fin n → Fin n → ℝ) (γ : ℝ) (ci : Fin n → ℝ) :
    Qdef A γ ci = (1 / mtot A) * ∑ i, ∑ j, comask ci i j * bker A γ i j := by
  simp only [Qdef, comask, bker, ite_mul, one_mul, zero_mul]

/-- closes a per-cell goal `code mask · value = comask · value'` by cases on co-membership -/
macro "mask_cases " ci:term:max i:term:max j:term:max : tactic => `(tactic| (
  by_cases h : $ci $i = $ci $j
  · have h' : $ci $j = $ci $i := h.symm
    have h'' : $ci $j - $ci $i = 0 := sub_eq_zero.mpr h'
    simp only [if_pos h, if_pos h', if_pos h'']
    first | rfl | ring1
  · have h' : ¬ ($ci $j = $ci $i) := fun e => h e.symm
    have h'' : ¬ ($ci $j - $ci $i = 0) := fun e => h' (sub_eq_zero.mp e)
    simp only [if_neg h, if_neg h', if_neg h'']
    first | rfl | ring1))

--@ C02 : modularity_dir
theorem modularity_dir_given_partition_is_Q (A : Fin n → Fin n → ℝ) (γ : ℝ) (ci : Fin n → ℝ) :
    modularity_dir_ret1 A γ ci = Qdef A γ ci := by
  rw [Qdef_eq, ← fold_transpose (comask ci) (bker A γ) (comask_symm ci) (mtot A)]
  simp only [modularity_dir_ret1, mtot_comm A, Finset.sum_div]
  refine Finset.sum_congr rfl (fun i _ => Finset.sum_congr rfl (fun j _ => ?_))
  simp only [comask, bker, kout, kin, mtot]
  mask_cases ci i j

--@ C02 : modularity_und
theorem modularity_und_given_partition_is_Q (A : Fin n → Fin n → ℝ) (hs : ∀ i j, A i j = A j i) (γ : ℝ) (ci : Fin n → ℝ) :
    modularity_und_ret1 A γ ci = Qdef A γ ci := by
  have hk : ∀ i, (∑ k, A k i) = ∑ k, A i k := fun i => Finset.sum_congr rfl (fun k _ => hs k i)
  rw [Qdef_eq, one_div, inv_mul_eq_div, Finset.sum_div]
  simp only [modularity_und_ret1, mtot_comm A, Finset.sum_div]
  refine Finset.sum_congr rfl (fun i _ => Finset.sum_congr rfl (fun j _ => ?_))
  simp only [comask, bker, kout, kin, hk, mtot]
  mask_cases ci i j

/-! ### signed modularity (Rubinov & Sporns 2011), five normalisations -/

/-- positive / negative parts of the weights, their totals -/
noncomputable def Wpos (W : Fin n → Fin n → ℝ) (i j : Fin n) : ℝ := max (W i j) 0
noncomputable def Wneg (W : Fin n → Fin n → ℝ) (i j : Fin n) : ℝ := max (-(W i j)) 0
noncomputable def spos (W : Fin n → Fin n → ℝ) : ℝ := ∑ i, ∑ j, Wpos W i j
noncomputable def sneg (W : Fin n → Fin n → ℝ) : ℝ := ∑ i, ∑ j, Wneg W i j

/-- DEFINITION: d0 Σ_{same module} (w⁺_ij − k⁺_i k⁺_j / s⁺) − d1 Σ_{same module} (w⁻_ij − k⁻_i k⁻_j / s⁻), k± = row sums of W± -/
noncomputable def Qsign (d0 d1 : ℝ) (W : Fin n → Fin n → ℝ) (ci : Fin n → ℝ) : ℝ :=
  d0 * (∑ i, ∑ j, if ci i = ci j then (Wpos W i j - (∑ l, Wpos W i l) * (∑ l, Wpos W j l) / spos W) else 0)
  - d1 * (∑ i, ∑ j, if ci i = ci j then (Wneg W i j - (∑ l, Wneg W i l) * (∑ l, Wneg W j l) / sneg W) else 0)

lemma mul_pos_ind (x : ℝ) : x * (if x > 0 then (1:ℝ) else 0) = max x 0 := by
  by_cases h : x > 0
  · rw [if_pos h, mul_one, max_eq_left h.le]
  · rw [if_neg h, mul_zero, max_eq_right (not_lt.mp h)]
lemma neg_mul_neg_ind (x : ℝ) : (-x) * (if x < 0 then (1:ℝ) else 0) = max (-x) 0 := by
  by_cases h : x < 0
  · rw [if_pos h, mul_one, max_eq_left (by linarith)]
  · rw [if_neg h, mul_zero, max_eq_right (by linarith [not_lt.mp h])]

/- common script of the five theorems: unfold the extracted value and the definition, replace W·[W>0] by max, Kn0/Kn1 by their
specification, the canonicalised labels by the labels, normalise the masks, decide the `if not s0` / `if not s1` branches -/

--@ C02 : modularity_und_sign
theorem modularity_und_sign_sta_is_Qsign (canon : (Fin n → ℝ) → Fin n → ℝ)
    (hcanon : ∀ c x y, canon c x = canon c y ↔ c x = c y)
    (W : Fin n → Fin n → ℝ) (ci Kn0 Kn1 : Fin n → ℝ)
    (hK0 : ∀ i, Kn0 i = ∑ j, Wpos W i j) (hK1 : ∀ i, Kn1 i = ∑ j, Wneg W i j) (hs0 : spos W ≠ 0) (hs1 : sneg W ≠ 0) :
    modularity_und_sign_sta_ret1 canon W ci Kn0 Kn1 = Qsign (1 / spos W) (1 / (spos W + sneg W)) W ci := by
  simp only [modularity_und_sign_sta_ret1, Qsign, spos, sneg, Wpos, Wneg] at *
  simp only [mul_pos_ind, neg_mul_neg_ind, add_left_inj, hcanon, hK0, hK1, mask_eq_r]
  simp only [hs0, hs1, if_false, ite_self, zero_mul, sub_zero, zero_sub]

--@ C02 : modularity_und_sign
theorem modularity_und_sign_smp_is_Qsign (canon : (Fin n → ℝ) → Fin n → ℝ)
    (hcanon : ∀ c x y, canon c x = canon c y ↔ c x = c y)
    (W : Fin n → Fin n → ℝ) (ci Kn0 Kn1 : Fin n → ℝ)
    (hK0 : ∀ i, Kn0 i = ∑ j, Wpos W i j) (hK1 : ∀ i, Kn1 i = ∑ j, Wneg W i j) (hs0 : spos W ≠ 0) (hs1 : sneg W ≠ 0) :
    modularity_und_sign_smp_ret1 canon W ci Kn0 Kn1 = Qsign (1 / spos W) (1 / sneg W) W ci := by
  simp only [modularity_und_sign_smp_ret1, Qsign, spos, sneg, Wpos, Wneg] at *
  simp only [mul_pos_ind, neg_mul_neg_ind, add_left_inj, hcanon, hK0, hK1, mask_eq_r]
  simp only [hs0, hs1, if_false, ite_self, zero_mul, sub_zero, zero_sub]

--@ C02 : modularity_und_sign
theorem modularity_und_sign_gja_is_Qsign (canon : (Fin n → ℝ) → Fin n → ℝ)
    (hcanon : ∀ c x y, canon c x = canon c y ↔ c x = c y)
    (W : Fin n → Fin n → ℝ) (ci Kn0 Kn1 : Fin n → ℝ)
    (hK0 : ∀ i, Kn0 i = ∑ j, Wpos W i j) (hK1 : ∀ i, Kn1 i = ∑ j, Wneg W i j) (hs0 : spos W ≠ 0) (hs1 : sneg W ≠ 0) :
    modularity_und_sign_gja_ret1 canon W ci Kn0 Kn1 = Qsign (1 / (spos W + sneg W)) (1 / (spos W + sneg W)) W ci := by
  simp only [modularity_und_sign_gja_ret1, Qsign, spos, sneg, Wpos, Wneg] at *
  simp only [mul_pos_ind, neg_mul_neg_ind, add_left_inj, hcanon, hK0, hK1, mask_eq_r]
  simp only [hs0, hs1, if_false, ite_self, zero_mul, sub_zero, zero_sub]

--@ C02 : modularity_und_sign
theorem modularity_und_sign_pos_is_Qsign (canon : (Fin n → ℝ) → Fin n → ℝ)
    (hcanon : ∀ c x y, canon c x = canon c y ↔ c x = c y)
    (W : Fin n → Fin n → ℝ) (ci Kn0 Kn1 : Fin n → ℝ)
    (hK0 : ∀ i, Kn0 i = ∑ j, Wpos W i j) (hK1 : ∀ i, Kn1 i = ∑ j, Wneg W i j) (hs0 : spos W ≠ 0) :
    modularity_und_sign_pos_ret1 canon W ci Kn0 Kn1 = Qsign (1 / spos W) (0) W ci := by
  simp only [modularity_und_sign_pos_ret1, Qsign, spos, sneg, Wpos, Wneg] at *
  simp only [mul_pos_ind, neg_mul_neg_ind, add_left_inj, hcanon, hK0, hK1, mask_eq_r]
  simp only [hs0, if_false, ite_self, zero_mul, sub_zero, zero_sub]

--@ C02 : modularity_und_sign
theorem modularity_und_sign_neg_is_Qsign (canon : (Fin n → ℝ) → Fin n → ℝ)
    (hcanon : ∀ c x y, canon c x = canon c y ↔ c x = c y)
    (W : Fin n → Fin n → ℝ) (ci Kn0 Kn1 : Fin n → ℝ)
    (hK0 : ∀ i, Kn0 i = ∑ j, Wpos W i j) (hK1 : ∀ i, Kn1 i = ∑ j, Wneg W i j) (hs1 : sneg W ≠ 0) :
    modularity_und_sign_neg_ret1 canon W ci Kn0 Kn1 = Qsign (0) (1 / sneg W) W ci := by
  simp only [modularity_und_sign_neg_ret1, Qsign, spos, sneg, Wpos, Wneg] at *
  simp only [mul_pos_ind, neg_mul_neg_ind, add_left_inj, hcanon, hK0, hK1, mask_eq_r]
  simp only [hs1, if_false, ite_self, zero_mul, sub_zero, zero_sub]

end C02
end Extracted

/-! ## C18 — random-walk and spectral measures satisfy their defining equations, RELATIVE TO STATED CONTRACTS of the LAPACK / callee
results, which are abstract functions here: `solve` (scipy.linalg.solve), `mfpt` (mean_first_passage_time), `expm` (scipy.linalg.expm),
`eigvals`/`eigvecs` (scipy.linalg.eig), `argmax` (np.argmax).  Each contract is an explicit HYPOTHESIS of the theorem that uses it
(an assumed contract on a dependency); it is stated for the one call the code makes, never as a universal property of the routine. -/
namespace Extracted
open BigOperators Finset

section C18
variable {n : ℕ}

/-- the code's `deg`: column sums of A with zeros replaced by one -/
noncomputable def pr_deg (A : Fin n → Fin n → ℝ) (j : Fin n) : ℝ := if (∑ i, A i j) = 0 then 1 else ∑ i, A i j
/-- I − d · A · D⁻¹ -/
noncomputable def pr_B (A : Fin n → Fin n → ℝ) (d : ℝ) (i j : Fin n) : ℝ :=
  (if i = j then 1 else 0) - d * (A i j * (1 / pr_deg A j))

/-- from the linear system to the fixed-point (PageRank) equation -/
lemma pr_fixed_point (A : Fin n → Fin n → ℝ) (d : ℝ) (f r : Fin n → ℝ)
    (h : ∀ i, ∑ j, pr_B A d i j * r j = (1 - d) * f i) (i : Fin n) :
    r i = d * ∑ j, A i j * (1 / pr_deg A j) * r j + (1 - d) * f i := by
  have e : ∑ j, pr_B A d i j * r j = r i - d * ∑ j, A i j * (1 / pr_deg A j) * r j := by
    simp only [pr_B, sub_mul, Finset.sum_sub_distrib, ite_mul, one_mul, zero_mul, Finset.sum_ite_eq, Finset.mem_univ, if_true,
      Finset.mul_sum]
    congr 1
    refine Finset.sum_congr rfl (fun j _ => ?_); ring
  have := h i
  rw [e] at this
  linarith

/-- column-stochasticity of A D⁻¹: a solution of the system sums to one -/
lemma pr_solution_sum (A : Fin n → Fin n → ℝ) (d : ℝ) (f r : Fin n → ℝ)
    (h : ∀ i, ∑ j, pr_B A d i j * r j = (1 - d) * f i)
    (hcol : ∀ j, (∑ i, A i j) ≠ 0) (hf : ∑ i, f i = 1) (hd : d ≠ 1) : ∑ i, r i = 1 := by
  have hcolB : ∀ j, ∑ i, pr_B A d i j = 1 - d := by
    intro j
    simp only [pr_B, Finset.sum_sub_distrib, Finset.sum_ite_eq', Finset.mem_univ, if_true, ← Finset.mul_sum, ← Finset.sum_mul,
      pr_deg, if_neg (hcol j)]
    rw [mul_one_div, div_self (hcol j), mul_one]
  have hsum : ∑ i, ∑ j, pr_B A d i j * r j = (1 - d) * ∑ i, r i := by
    rw [Finset.sum_comm, Finset.mul_sum]
    refine Finset.sum_congr rfl (fun j _ => ?_)
    rw [← Finset.sum_mul, hcolB j]
  have hrhs : ∑ i, ∑ j, pr_B A d i j * r j = 1 - d := by
    simp only [h, ← Finset.mul_sum, hf, mul_one]
  have h1d : (1 - d) ≠ 0 := sub_ne_zero.mpr (Ne.symm hd)
  have : (1 - d) * ∑ i, r i = (1 - d) * 1 := by rw [← hsum, hrhs, mul_one]
  exact mul_left_cancel₀ h1d this

/-! ### pagerank_centrality, falff = None (uniform f = 1/n) -/

/-- the matrix handed to `solve` is I − d A D⁻¹ with D the code's `deg`; the right-hand side is (1 − d) · 1/n -/
--@ C18 : pagerank_centrality
theorem pagerank_centrality_uniform_system (A : Fin n → Fin n → ℝ) (d : ℝ) :
    pagerank_centrality_uniform_call0_arg0 A d = pr_B A d ∧
    pagerank_centrality_uniform_call0_arg1 A d = fun _ => (1 - d) * (1 / (n : ℝ)) := by
  constructor
  · funext i j
    simp only [pagerank_centrality_uniform_call0_arg0, pr_B, pr_deg, mul_ite, mul_zero, Finset.sum_ite_eq', Finset.mem_univ, if_true] <;>
      first | rfl | ring1 | (split_ifs <;> ring1)
  · funext i
    simp only [pagerank_centrality_uniform_call0_arg1] <;> first | rfl | ring1

/-- (a) the returned vector sums to one (only `Σ r0 ≠ 0` is used, no contract of `solve`) -/
--@ C18 : pagerank_centrality
theorem pagerank_centrality_uniform_sums_to_one (solve : (Fin n → Fin n → ℝ) → (Fin n → ℝ) → Fin n → ℝ)
    (A : Fin n → Fin n → ℝ) (d : ℝ)
    (h0 : ∑ i, solve (pagerank_centrality_uniform_call0_arg0 A d) (pagerank_centrality_uniform_call0_arg1 A d) i ≠ 0) :
    ∑ i, pagerank_centrality_uniform solve A d i = 1 := by
  simp only [pagerank_centrality_uniform, ← Finset.sum_div]
  exact div_self h0

/-- (c) CONTRACT of scipy.linalg.solve for the one call made (`B · r0 = b`): then r0 sums to one when no column sum of A is zero,
d ≠ 1 and n > 0 -/
--@ C18 : pagerank_centrality
theorem pagerank_centrality_uniform_solution_sums_to_one (solve : (Fin n → Fin n → ℝ) → (Fin n → ℝ) → Fin n → ℝ)
    (A : Fin n → Fin n → ℝ) (d : ℝ)
    (hsolve : ∀ i, ∑ j, pagerank_centrality_uniform_call0_arg0 A d i j
        * solve (pagerank_centrality_uniform_call0_arg0 A d) (pagerank_centrality_uniform_call0_arg1 A d) j
        = pagerank_centrality_uniform_call0_arg1 A d i)
    (hcol : ∀ j, (∑ i, A i j) ≠ 0) (hd : d ≠ 1) (hn : 0 < n) :
    ∑ i, solve (pagerank_centrality_uniform_call0_arg0 A d) (pagerank_centrality_uniform_call0_arg1 A d) i = 1 := by
  obtain ⟨hB, hb⟩ := pagerank_centrality_uniform_system A d
  rw [hB, hb] at hsolve ⊢
  refine pr_solution_sum A d (fun _ => 1 / (n : ℝ)) _ hsolve hcol ?_ hd
  have : (n : ℝ) ≠ 0 := Nat.cast_ne_zero.mpr hn.ne'
  simp only [Finset.sum_const, Finset.card_univ, Fintype.card_fin, nsmul_eq_mul]
  field_simp

/-- (b) under the contract of `solve`, and if r0 sums to one, the returned r satisfies r = d A D⁻¹ r + (1 − d) f, f = 1/n -/
--@ C18 : pagerank_centrality
theorem pagerank_centrality_uniform_fixed_point (solve : (Fin n → Fin n → ℝ) → (Fin n → ℝ) → Fin n → ℝ)
    (A : Fin n → Fin n → ℝ) (d : ℝ)
    (hsolve : ∀ i, ∑ j, pagerank_centrality_uniform_call0_arg0 A d i j
        * solve (pagerank_centrality_uniform_call0_arg0 A d) (pagerank_centrality_uniform_call0_arg1 A d) j
        = pagerank_centrality_uniform_call0_arg1 A d i)
    (h1 : ∑ i, solve (pagerank_centrality_uniform_call0_arg0 A d) (pagerank_centrality_uniform_call0_arg1 A d) i = 1) (i : Fin n) :
    pagerank_centrality_uniform solve A d i
      = d * ∑ j, A i j * (1 / pr_deg A j) * pagerank_centrality_uniform solve A d j + (1 - d) * (1 / (n : ℝ)) := by
  obtain ⟨hB, hb⟩ := pagerank_centrality_uniform_system A d
  have hr : ∀ k, pagerank_centrality_uniform solve A d k
      = solve (pagerank_centrality_uniform_call0_arg0 A d) (pagerank_centrality_uniform_call0_arg1 A d) k := by
    intro k; simp only [pagerank_centrality_uniform, h1, div_one]
  simp only [hr]
  rw [hB, hb] at hsolve ⊢
  exact pr_fixed_point A d (fun _ => 1 / (n : ℝ)) _ hsolve i

/-- summary: contract of `solve` + no zero column sum + d ≠ 1 + n > 0 ⇒ r sums to one and satisfies the PageRank equation -/
--@ C18 : pagerank_centrality
theorem pagerank_centrality_uniform_spec (solve : (Fin n → Fin n → ℝ) → (Fin n → ℝ) → Fin n → ℝ)
    (A : Fin n → Fin n → ℝ) (d : ℝ)
    (hsolve : ∀ i, ∑ j, pagerank_centrality_uniform_call0_arg0 A d i j
        * solve (pagerank_centrality_uniform_call0_arg0 A d) (pagerank_centrality_uniform_call0_arg1 A d) j
        = pagerank_centrality_uniform_call0_arg1 A d i)
    (hcol : ∀ j, (∑ i, A i j) ≠ 0) (hd : d ≠ 1) (hn : 0 < n) :
    ∑ i, pagerank_centrality_uniform solve A d i = 1 ∧
    ∀ i, pagerank_centrality_uniform solve A d i
      = d * ∑ j, A i j * (1 / pr_deg A j) * pagerank_centrality_uniform solve A d j + (1 - d) * (1 / (n : ℝ)) := by
  have h1 := pagerank_centrality_uniform_solution_sums_to_one solve A d hsolve hcol hd hn
  exact ⟨pagerank_centrality_uniform_sums_to_one solve A d (by rw [h1]; exact one_ne_zero),
    pagerank_centrality_uniform_fixed_point solve A d hsolve h1⟩
/-! ### pagerank_centrality with a given falff (f = falff / Σ falff) -/

/-- the matrix handed to `solve` is I − d A D⁻¹ with D the code's `deg`; the right-hand side is (1 − d) · falff / Σ falff -/
--@ C18 : pagerank_centrality
theorem pagerank_centrality_falff_system (A : Fin n → Fin n → ℝ) (d : ℝ) (falff : Fin n → ℝ) :
    pagerank_centrality_falff_call0_arg0 A d falff = pr_B A d ∧
    pagerank_centrality_falff_call0_arg1 A d falff = fun i => (1 - d) * (falff i / ∑ k, falff k) := by
  constructor
  · funext i j
    simp only [pagerank_centrality_falff_call0_arg0, pr_B, pr_deg, mul_ite, mul_zero, Finset.sum_ite_eq', Finset.mem_univ, if_true] <;>
      first | rfl | ring1 | (split_ifs <;> ring1)
  · funext i
    simp only [pagerank_centrality_falff_call0_arg1] <;> first | rfl | ring1

/-- (a) the returned vector sums to one (only `Σ r0 ≠ 0` is used, no contract of `solve`) -/
--@ C18 : pagerank_centrality
theorem pagerank_centrality_falff_sums_to_one (solve : (Fin n → Fin n → ℝ) → (Fin n → ℝ) → Fin n → ℝ)
    (A : Fin n → Fin n → ℝ) (d : ℝ) (falff : Fin n → ℝ)
    (h0 : ∑ i, solve (pagerank_centrality_falff_call0_arg0 A d falff) (pagerank_centrality_falff_call0_arg1 A d falff) i ≠ 0) :
    ∑ i, pagerank_centrality_falff solve A d falff i = 1 := by
  simp only [pagerank_centrality_falff, ← Finset.sum_div]
  exact div_self h0

/-- (c) CONTRACT of scipy.linalg.solve for the one call made (`B · r0 = b`): then r0 sums to one when no column sum of A is zero,
d ≠ 1 and Σ falff ≠ 0 -/
--@ C18 : pagerank_centrality
theorem pagerank_centrality_falff_solution_sums_to_one (solve : (Fin n → Fin n → ℝ) → (Fin n → ℝ) → Fin n → ℝ)
    (A : Fin n → Fin n → ℝ) (d : ℝ) (falff : Fin n → ℝ)
    (hsolve : ∀ i, ∑ j, pagerank_centrality_falff_call0_arg0 A d falff i j
        * solve (pagerank_centrality_falff_call0_arg0 A d falff) (pagerank_centrality_falff_call0_arg1 A d falff) j
        = pagerank_centrality_falff_call0_arg1 A d falff i)
    (hcol : ∀ j, (∑ i, A i j) ≠ 0) (hd : d ≠ 1) (hfal : (∑ k, falff k) ≠ 0) :
    ∑ i, solve (pagerank_centrality_falff_call0_arg0 A d falff) (pagerank_centrality_falff_call0_arg1 A d falff) i = 1 := by
  obtain ⟨hB, hb⟩ := pagerank_centrality_falff_system A d falff
  rw [hB, hb] at hsolve ⊢
  refine pr_solution_sum A d (fun i => falff i / ∑ k, falff k) _ hsolve hcol ?_ hd
  rw [← Finset.sum_div, div_self hfal]

/-- (b) under the contract of `solve`, and if r0 sums to one, the returned r satisfies r = d A D⁻¹ r + (1 − d) f, f = falff / Σ falff -/
--@ C18 : pagerank_centrality
theorem pagerank_centrality_falff_fixed_point (solve : (Fin n → Fin n → ℝ) → (Fin n → ℝ) → Fin n → ℝ)
    (A : Fin n → Fin n → ℝ) (d : ℝ) (falff : Fin n → ℝ)
    (hsolve : ∀ i, ∑ j, pagerank_centrality_falff_call0_arg0 A d falff i j
        * solve (pagerank_centrality_falff_call0_arg0 A d falff) (pagerank_centrality_falff_call0_arg1 A d falff) j
        = pagerank_centrality_falff_call0_arg1 A d falff i)
    (h1 : ∑ i, solve (pagerank_centrality_falff_call0_arg0 A d falff) (pagerank_centrality_falff_call0_arg1 A d falff) i = 1) (i : Fin n) :
    pagerank_centrality_falff solve A d falff i
      = d * ∑ j, A i j * (1 / pr_deg A j) * pagerank_centrality_falff solve A d falff j + (1 - d) * (falff i / ∑ k, falff k) := by
  obtain ⟨hB, hb⟩ := pagerank_centrality_falff_system A d falff
  have hr : ∀ k, pagerank_centrality_falff solve A d falff k
      = solve (pagerank_centrality_falff_call0_arg0 A d falff) (pagerank_centrality_falff_call0_arg1 A d falff) k := by
    intro k; simp only [pagerank_centrality_falff, h1, div_one]
  simp only [hr]
  rw [hB, hb] at hsolve ⊢
  exact pr_fixed_point A d (fun i => falff i / ∑ k, falff k) _ hsolve i

/-- summary: contract of `solve` + no zero column sum + d ≠ 1 + Σ falff ≠ 0 ⇒ r sums to one and satisfies the PageRank equation -/
--@ C18 : pagerank_centrality
theorem pagerank_centrality_falff_spec (solve : (Fin n → Fin n → ℝ) → (Fin n → ℝ) → Fin n → ℝ)
    (A : Fin n → Fin n → ℝ) (d : ℝ) (falff : Fin n → ℝ)
    (hsolve : ∀ i, ∑ j, pagerank_centrality_falff_call0_arg0 A d falff i j
        * solve (pagerank_centrality_falff_call0_arg0 A d falff) (pagerank_centrality_falff_call0_arg1 A d falff) j
        = pagerank_centrality_falff_call0_arg1 A d falff i)
    (hcol : ∀ j, (∑ i, A i j) ≠ 0) (hd : d ≠ 1) (hfal : (∑ k, falff k) ≠ 0) :
    ∑ i, pagerank_centrality_falff solve A d falff i = 1 ∧
    ∀ i, pagerank_centrality_falff solve A d falff i
      = d * ∑ j, A i j * (1 / pr_deg A j) * pagerank_centrality_falff solve A d falff j + (1 - d) * (falff i / ∑ k, falff k) := by
  have h1 := pagerank_centrality_falff_solution_sums_to_one solve A d falff hsolve hcol hd hfal
  exact ⟨pagerank_centrality_falff_sums_to_one solve A d falff (by rw [h1]; exact one_ne_zero),
    pagerank_centrality_falff_fixed_point solve A d falff hsolve h1⟩
/-! ### diffusion_efficiency: `mfpt` = mean_first_passage_time(adj) is abstract (callee; its own defining equation is bounded-only) -/

--@ C18 : diffusion_efficiency
theorem diffusion_efficiency_def (mfpt : (Fin n → Fin n → ℝ) → Fin n → Fin n → ℝ) (adj : Fin n → Fin n → ℝ) :
    diffusion_efficiency_call0_arg0 adj = adj ∧
    (∀ i j, diffusion_efficiency_ret1 mfpt adj i j = if i = j then 0 else 1 / mfpt adj i j) ∧
    diffusion_efficiency_ret0 mfpt adj
      = (∑ i, ∑ j, (if i ≠ j then 1 / mfpt adj i j else 0)) / ((n : ℝ) ^ 2 - (n : ℝ)) := by
  have h0 : diffusion_efficiency_call0_arg0 adj = adj := by
    funext i j; simp only [diffusion_efficiency_call0_arg0]
  refine ⟨h0, ?_, ?_⟩
  · intro i j; simp only [diffusion_efficiency_ret1, h0]
  · simp only [diffusion_efficiency_ret0, h0, ne_eq, ite_not] <;> first | rfl | (congr 1 <;> first | rfl | ring1)

/-- the global value is the mean of the returned matrix over the ordered pairs i ≠ j -/
--@ C18 : diffusion_efficiency
theorem diffusion_efficiency_mean (mfpt : (Fin n → Fin n → ℝ) → Fin n → Fin n → ℝ) (adj : Fin n → Fin n → ℝ) :
    diffusion_efficiency_ret0 mfpt adj
      = (∑ i, ∑ j, diffusion_efficiency_ret1 mfpt adj i j) / ((n : ℝ) ^ 2 - (n : ℝ)) := by
  simp only [diffusion_efficiency_ret0, diffusion_efficiency_ret1] <;> first | rfl | (congr 1 <;> first | rfl | ring1)

/-! ### subgraph_centrality: diagonal of the matrix exponential (`expm` abstract) -/

--@ C18 : subgraph_centrality
theorem subgraph_centrality_is_diag_expm (expm : (Fin n → Fin n → ℝ) → Fin n → Fin n → ℝ) (CIJ : Fin n → Fin n → ℝ) :
    subgraph_centrality_call0_arg0 CIJ = CIJ ∧ subgraph_centrality expm CIJ = fun i => expm CIJ i i := by
  have h0 : subgraph_centrality_call0_arg0 CIJ = CIJ := by
    funext i j; simp only [subgraph_centrality_call0_arg0]
  exact ⟨h0, by funext i; simp only [subgraph_centrality, h0]⟩

/-! ### eigenvector_centrality_und: |column argmax(vals) of vecs| (`eigvals`, `eigvecs`, `argmax` abstract; real parts only) -/

--@ C18 : eigenvector_centrality_und
theorem eigenvector_centrality_und_is_abs_argmax_column
    (eigvals : (Fin n → Fin n → ℝ) → Fin n → ℝ) (eigvecs : (Fin n → Fin n → ℝ) → Fin n → Fin n → ℝ)
    (argmax : (Fin n → ℝ) → Fin n) (CIJ : Fin n → Fin n → ℝ) :
    eigenvector_centrality_und eigvals eigvecs argmax CIJ = fun k => |eigvecs CIJ k (argmax (eigvals CIJ))| := by
  have h0 : eigenvector_centrality_und_call0_arg0 CIJ = CIJ := by
    funext i j; simp only [eigenvector_centrality_und_call0_arg0]
  have h1 : eigenvector_centrality_und_call1_arg0 eigvals CIJ = eigvals CIJ := by
    funext i; simp only [eigenvector_centrality_und_call1_arg0, h0]
  funext k; simp only [eigenvector_centrality_und, h0, h1]

/-- CONTRACTS of scipy.linalg.eig (every column of vecs is an eigenvector for the matching value) and of np.argmax (index of a
largest entry): the vector whose entrywise absolute value is returned is an eigenvector of CIJ for a largest eigenvalue.
(Non-negativity of the returned vector is immediate; that |v| is itself an eigenvector / unit norm is Perron–Frobenius and
LAPACK normalisation: bounded-only.) -/
--@ C18 : eigenvector_centrality_und
theorem eigenvector_centrality_und_spec
    (eigvals : (Fin n → Fin n → ℝ) → Fin n → ℝ) (eigvecs : (Fin n → Fin n → ℝ) → Fin n → Fin n → ℝ)
    (argmax : (Fin n → ℝ) → Fin n) (CIJ : Fin n → Fin n → ℝ)
    (heig : ∀ k i, ∑ j, CIJ i j * eigvecs CIJ j k = eigvals CIJ k * eigvecs CIJ i k)
    (hargmax : ∀ k, eigvals CIJ k ≤ eigvals CIJ (argmax (eigvals CIJ))) :
    ∃ (v : Fin n → ℝ) (lam : ℝ), (∀ k, eigvals CIJ k ≤ lam) ∧ (∀ i, ∑ j, CIJ i j * v j = lam * v i) ∧
      (∀ i, eigenvector_centrality_und eigvals eigvecs argmax CIJ i = |v i|) ∧
      (∀ i, 0 ≤ eigenvector_centrality_und eigvals eigvecs argmax CIJ i) := by
  refine ⟨fun i => eigvecs CIJ i (argmax (eigvals CIJ)), eigvals CIJ (argmax (eigvals CIJ)), hargmax, ?_, ?_, ?_⟩
  · intro i; exact heig _ i
  · intro i; rw [eigenvector_centrality_und_is_abs_argmax_column]
  · intro i; rw [eigenvector_centrality_und_is_abs_argmax_column]; exact abs_nonneg _

end C18
end Extracted

/-! ## C15 (also used by C01 / C06 / C11) — the CALLEE CONTRACTS that the pyvc tier assumes for degrees_und, degrees_dir,
strengths_und and binarize (engine/pyvc/run.py: callee_degrees_und, callee_degrees_dir, callee_strengths_und, callee_binarize),
proved here for the extracted definitions, for all n and ALL real matrices.  `ccnt`, `rcnt`, `csum`, `rsum` are the SMT spec
functions ccnt(M, y, n), cnt1(M[x], n), csum(M, y, n), sum1(M[x], n) (VerifLemmas: ccnt, cnt, csum, sum1). -/
namespace Extracted
open BigOperators Finset

section C15
variable {n : ℕ}

/-- number of non-zero entries of column y / of row x; column and row sums -/
noncomputable def ccnt (M : Fin n → Fin n → ℝ) (y : Fin n) : ℕ := (Finset.univ.filter (fun x => M x y ≠ 0)).card
noncomputable def rcnt (M : Fin n → Fin n → ℝ) (x : Fin n) : ℕ := (Finset.univ.filter (fun y => M x y ≠ 0)).card
noncomputable def csum (M : Fin n → Fin n → ℝ) (y : Fin n) : ℝ := ∑ x, M x y
noncomputable def rsum (M : Fin n → Fin n → ℝ) (x : Fin n) : ℝ := ∑ y, M x y

lemma sum_ind_col (M : Fin n → Fin n → ℝ) (y : Fin n) : ∑ x, ind (M x y) = (ccnt M y : ℝ) := by
  simp only [ind, ccnt, Finset.sum_boole]
lemma sum_ind_row (M : Fin n → Fin n → ℝ) (x : Fin n) : ∑ y, ind (M x y) = (rcnt M x : ℝ) := by
  simp only [ind, rcnt, Finset.sum_boole]

/-- discharges callee_binarize (copy=True): entry = 1 where the argument is non-zero, 0 elsewhere -/
--@ C15 : binarize
theorem binarize_is_indicator (W : Fin n → Fin n → ℝ) (i j : Fin n) :
    binarize W i j = if W i j ≠ 0 then 1 else 0 := by
  simp only [binarize, ind_binarize, ind]

/-- discharges callee_degrees_und: deg[q] = ccnt(CIJ, q, n), the number of non-zero entries of column q -/
--@ C15 : degrees_und
theorem degrees_und_is_column_count (CIJ : Fin n → Fin n → ℝ) (y : Fin n) :
    degrees_und CIJ y = (ccnt CIJ y : ℝ) := by
  simp only [degrees_und, ind_binarize, ind_not, sum_ind_col]

/-- discharges callee_degrees_dir: (column counts, row counts, their sum) -/
--@ C15 : degrees_dir
theorem degrees_dir_is_counts (CIJ : Fin n → Fin n → ℝ) (q : Fin n) :
    degrees_dir_ret0 CIJ q = (ccnt CIJ q : ℝ) ∧ degrees_dir_ret1 CIJ q = (rcnt CIJ q : ℝ) ∧
    degrees_dir_ret2 CIJ q = ((ccnt CIJ q + rcnt CIJ q : ℕ) : ℝ) := by
  refine ⟨?_, ?_, ?_⟩
  · simp only [degrees_dir_ret0, ind_binarize, ind_not, sum_ind_col]
  · simp only [degrees_dir_ret1, ind_binarize, ind_not, sum_ind_row]
  · simp only [degrees_dir_ret2, ind_binarize, ind_not, sum_ind_col, sum_ind_row, Nat.cast_add] <;> first | rfl | ring1

/-- discharges callee_strengths_und: str[q] = csum(CIJ, q, n) -/
--@ C15 : strengths_und
theorem strengths_und_is_column_sum (CIJ : Fin n → Fin n → ℝ) (y : Fin n) : strengths_und CIJ y = csum CIJ y := by
  simp only [strengths_und, csum]

/-- strengths_dir = in-strength + out-strength (no pyvc callee contract uses it yet) -/
--@ C15 : strengths_dir
theorem strengths_dir_is_sum_of_sums (CIJ : Fin n → Fin n → ℝ) (q : Fin n) :
    strengths_dir CIJ q = csum CIJ q + rsum CIJ q := by
  simp only [strengths_dir, csum, rsum] <;> first | rfl | ring1

end C15
end Extracted

/-! ## C19 — the t-statistic closures of nbs_bct (bct/nbs.py): ttest2_stat_only (POOLED-variance two-sample statistic, as the code
computes it — not Welch) and ttest_paired_stat_only, one extracted definition per tail.  `sqrt` is an abstract function ℝ → ℝ (no
property of it is used).  Groups have sizes n1, n2 (vectors over Fin n1 / Fin n2). -/
namespace Extracted
open BigOperators Finset

section C19
variable {n1 n2 n : ℕ}

/-- np.mean and np.var(·, ddof=1) of a sample of size m -/
noncomputable def smean {m : ℕ} (x : Fin m → ℝ) : ℝ := (∑ i, x i) / (m : ℝ)
noncomputable def svar1 {m : ℕ} (x : Fin m → ℝ) : ℝ := (∑ i, (x i - smean x) ^ 2) / ((m : ℝ) - 1)
/-- pooled standard error: sqrt(((n1−1) s1² + (n2−1) s2²)/(n1+n2−2)) · sqrt(1/n1 + 1/n2) -/
noncomputable def tden (sqrt : ℝ → ℝ) (x : Fin n1 → ℝ) (y : Fin n2 → ℝ) : ℝ :=
  sqrt ((((n1 : ℝ) - 1) * svar1 x + ((n2 : ℝ) - 1) * svar1 y) / ((n1 : ℝ) + (n2 : ℝ) - 2)) * sqrt (1 / (n1 : ℝ) + 1 / (n2 : ℝ))
/-- the two-sample statistic (mean x − mean y) / pooled standard error -/
noncomputable def tstat (sqrt : ℝ → ℝ) (x : Fin n1 → ℝ) (y : Fin n2 → ℝ) : ℝ := (smean x - smean y) / tden sqrt x y

lemma tden_swap (sqrt : ℝ → ℝ) (x : Fin n1 → ℝ) (y : Fin n2 → ℝ) : tden sqrt y x = tden sqrt x y := by
  unfold tden
  congr 2 <;> ring
lemma tstat_swap (sqrt : ℝ → ℝ) (x : Fin n1 → ℝ) (y : Fin n2 → ℝ) : tstat sqrt y x = - tstat sqrt x y := by
  unfold tstat; rw [tden_swap]; ring

lemma smean_perm {m : ℕ} (σ : Equiv.Perm (Fin m)) (x : Fin m → ℝ) : smean (fun i => x (σ i)) = smean x := by
  unfold smean; rw [Equiv.sum_comp σ x]
lemma svar1_perm {m : ℕ} (σ : Equiv.Perm (Fin m)) (x : Fin m → ℝ) : svar1 (fun i => x (σ i)) = svar1 x := by
  unfold svar1; rw [smean_perm, Equiv.sum_comp σ (fun i => (x i - smean x) ^ 2)]
lemma allconst_perm {m : ℕ} (σ : Equiv.Perm (Fin m)) (x : Fin m → ℝ) :
    (∀ a b, x (σ a) = x (σ b)) ↔ (∀ a b, x a = x b) := by
  constructor
  · intro h a b; simpa using h (σ.symm a) (σ.symm b)
  · intro h a b; exact h _ _

/-- `if` congruence that does not care which Decidable instances the two sides carry -/
lemma ite_eq_of_iff {p q : Prop} [Decidable p] [Decidable q] {a a' b b' : ℝ} (h : p ↔ q) (ha : a = a') (hb : b = b') :
    (if p then a else b) = (if q then a' else b') := by
  subst ha hb
  by_cases hp : p
  · rw [if_pos hp, if_pos (h.mp hp)]
  · rw [if_neg hp, if_neg (fun hq => hp (h.mpr hq))]

/-- congruence for the guarded value `if d = 0 ∨ p then 0 else t` -/
lemma guard_ite_congr {p q : Prop} {d d' t t' : ℝ} [Decidable (d = 0 ∨ p)] [Decidable (d' = 0 ∨ q)]
    (hd : d = d') (hp : p ↔ q) (ht : t = t') :
    (if d = 0 ∨ p then (0:ℝ) else t) = (if d' = 0 ∨ q then 0 else t') :=
  ite_eq_of_iff (by rw [hd, hp]) rfl ht

/-- value for tail = 'right': 0 in the degenerate case (zero standard error, or both samples constant), else the statistic -/
--@ C19 : nbs_bct
theorem ttest2_right_def (sqrt : ℝ → ℝ) (x : Fin n1 → ℝ) (y : Fin n2 → ℝ) :
    ttest2_stat_only_right sqrt x y
      = if tden sqrt x y = 0 ∨ ((∀ a b, x a = x b) ∧ (∀ a b, y a = y b)) then 0 else tstat sqrt x y := by
  unfold ttest2_stat_only_right
  refine guard_ite_congr ?_ ?_ ?_ <;>
    first | rfl | exact Iff.rfl | exact and_comm |
      (simp only [tstat, tden, svar1, smean, neg_div] <;> first | rfl | ring1 | (congr 1; ring1))
--@ C19 : nbs_bct
theorem ttest2_left_def (sqrt : ℝ → ℝ) (x : Fin n1 → ℝ) (y : Fin n2 → ℝ) :
    ttest2_stat_only_left sqrt x y
      = if tden sqrt x y = 0 ∨ ((∀ a b, x a = x b) ∧ (∀ a b, y a = y b)) then 0 else - tstat sqrt x y := by
  unfold ttest2_stat_only_left
  refine guard_ite_congr ?_ ?_ ?_ <;>
    first | rfl | exact Iff.rfl | exact and_comm |
      (simp only [tstat, tden, svar1, smean, neg_div] <;> first | rfl | ring1 | (congr 1; ring1))
--@ C19 : nbs_bct
theorem ttest2_both_def (sqrt : ℝ → ℝ) (x : Fin n1 → ℝ) (y : Fin n2 → ℝ) :
    ttest2_stat_only_both sqrt x y
      = if tden sqrt x y = 0 ∨ ((∀ a b, x a = x b) ∧ (∀ a b, y a = y b)) then 0 else |tstat sqrt x y| := by
  unfold ttest2_stat_only_both
  refine guard_ite_congr ?_ ?_ ?_ <;>
    first | rfl | exact Iff.rfl | exact and_comm |
      (simp only [tstat, tden, svar1, smean, neg_div] <;> first | rfl | ring1 | (congr 1; ring1))

/-- swapping the two groups together with the tail ('left' ↔ 'right') leaves the statistic unchanged -/
--@ C19 : nbs_bct
theorem ttest2_swap_groups_and_tail (sqrt : ℝ → ℝ) (x : Fin n1 → ℝ) (y : Fin n2 → ℝ) :
    ttest2_stat_only_left sqrt y x = ttest2_stat_only_right sqrt x y ∧
    ttest2_stat_only_right sqrt y x = ttest2_stat_only_left sqrt x y := by
  rw [ttest2_left_def, ttest2_right_def, ttest2_left_def, ttest2_right_def, tden_swap, tstat_swap, neg_neg]
  exact ⟨ite_eq_of_iff (or_congr Iff.rfl and_comm) rfl rfl, ite_eq_of_iff (or_congr Iff.rfl and_comm) rfl rfl⟩

/-- tail = 'both' is invariant under swapping the groups -/
--@ C19 : nbs_bct
theorem ttest2_both_swap_invariant (sqrt : ℝ → ℝ) (x : Fin n1 → ℝ) (y : Fin n2 → ℝ) :
    ttest2_stat_only_both sqrt y x = ttest2_stat_only_both sqrt x y := by
  rw [ttest2_both_def, ttest2_both_def, tden_swap, tstat_swap, abs_neg]
  exact ite_eq_of_iff (or_congr Iff.rfl and_comm) rfl rfl

lemma tden_perm_x (sqrt : ℝ → ℝ) (σ : Equiv.Perm (Fin n1)) (x : Fin n1 → ℝ) (y : Fin n2 → ℝ) :
    tden sqrt (fun i => x (σ i)) y = tden sqrt x y := by unfold tden; rw [svar1_perm]
lemma tden_perm_y (sqrt : ℝ → ℝ) (τ : Equiv.Perm (Fin n2)) (x : Fin n1 → ℝ) (y : Fin n2 → ℝ) :
    tden sqrt x (fun i => y (τ i)) = tden sqrt x y := by unfold tden; rw [svar1_perm]
lemma tstat_perm (sqrt : ℝ → ℝ) (σ : Equiv.Perm (Fin n1)) (τ : Equiv.Perm (Fin n2)) (x : Fin n1 → ℝ) (y : Fin n2 → ℝ) :
    tstat sqrt (fun i => x (σ i)) (fun i => y (τ i)) = tstat sqrt x y := by
  unfold tstat; rw [tden_perm_x, tden_perm_y, smean_perm, smean_perm]

/-- reordering the subjects within each group (any permutations σ of x, τ of y) leaves the statistic unchanged, for every tail -/
--@ C19 : nbs_bct
theorem ttest2_subject_order_invariant (sqrt : ℝ → ℝ) (σ : Equiv.Perm (Fin n1)) (τ : Equiv.Perm (Fin n2))
    (x : Fin n1 → ℝ) (y : Fin n2 → ℝ) :
    ttest2_stat_only_right sqrt (fun i => x (σ i)) (fun i => y (τ i)) = ttest2_stat_only_right sqrt x y ∧
    ttest2_stat_only_left sqrt (fun i => x (σ i)) (fun i => y (τ i)) = ttest2_stat_only_left sqrt x y ∧
    ttest2_stat_only_both sqrt (fun i => x (σ i)) (fun i => y (τ i)) = ttest2_stat_only_both sqrt x y := by
  have hc : (tden sqrt (fun i => x (σ i)) (fun i => y (τ i)) = 0 ∨
        ((∀ a b, x (σ a) = x (σ b)) ∧ (∀ a b, y (τ a) = y (τ b))))
      ↔ (tden sqrt x y = 0 ∨ ((∀ a b, x a = x b) ∧ (∀ a b, y a = y b))) := by
    rw [tden_perm_x, tden_perm_y, allconst_perm σ x, allconst_perm τ y]
  simp only [ttest2_right_def, ttest2_left_def, ttest2_both_def, tstat_perm]
  exact ⟨ite_eq_of_iff hc rfl rfl, ite_eq_of_iff hc rfl rfl, ite_eq_of_iff hc rfl rfl⟩

/-! ### paired statistic: z = mean(A − B) / sqrt(SS/(n − 1)), SS = Σ(A−B)² − (Σ(A−B))²/n, t = z · sqrt n -/

noncomputable def tpaired (sqrt : ℝ → ℝ) (A B : Fin n → ℝ) : ℝ :=
  smean (fun i => A i - B i)
    / sqrt (((∑ i, (A i - B i) ^ 2) - (∑ i, (A i - B i)) ^ 2 / (n : ℝ)) / ((n : ℝ) - 1)) * sqrt (n : ℝ)

--@ C19 : nbs_bct
theorem ttest_paired_def (sqrt : ℝ → ℝ) (A B : Fin n → ℝ) :
    ttest_paired_stat_only_right sqrt A B = tpaired sqrt A B ∧
    ttest_paired_stat_only_left sqrt A B = - tpaired sqrt A B ∧
    ttest_paired_stat_only_both sqrt A B = |tpaired sqrt A B| := by
  refine ⟨?_, ?_, ?_⟩
  · unfold ttest_paired_stat_only_right tpaired smean; first | rfl | ring1
  · unfold ttest_paired_stat_only_left tpaired smean; first | rfl | ring1
  · unfold ttest_paired_stat_only_both tpaired smean; first | rfl | (congr 1; ring1)

lemma tpaired_swap (sqrt : ℝ → ℝ) (A B : Fin n → ℝ) : tpaired sqrt B A = - tpaired sqrt A B := by
  have h1 : ∀ i, (B i - A i) ^ 2 = (A i - B i) ^ 2 := fun i => by ring
  have h2 : ∑ i, (B i - A i) = - ∑ i, (A i - B i) := by
    rw [← Finset.sum_neg_distrib]; exact Finset.sum_congr rfl (fun i _ => by ring)
  unfold tpaired smean
  simp only [h1, h2, neg_sq]
  ring

/-- swapping A and B together with the tail leaves the paired statistic unchanged; 'both' is swap-invariant -/
--@ C19 : nbs_bct
theorem ttest_paired_swap (sqrt : ℝ → ℝ) (A B : Fin n → ℝ) :
    ttest_paired_stat_only_left sqrt B A = ttest_paired_stat_only_right sqrt A B ∧
    ttest_paired_stat_only_right sqrt B A = ttest_paired_stat_only_left sqrt A B ∧
    ttest_paired_stat_only_both sqrt B A = ttest_paired_stat_only_both sqrt A B := by
  obtain ⟨r1, l1, b1⟩ := ttest_paired_def sqrt A B
  obtain ⟨r2, l2, b2⟩ := ttest_paired_def sqrt B A
  rw [r1, l1, b1, r2, l2, b2, tpaired_swap, neg_neg, abs_neg]
  exact ⟨rfl, rfl, rfl⟩

/-- permuting the PAIRS jointly leaves the paired statistic unchanged, for every tail -/
--@ C19 : nbs_bct
theorem ttest_paired_pair_order_invariant (sqrt : ℝ → ℝ) (σ : Equiv.Perm (Fin n)) (A B : Fin n → ℝ) :
    ttest_paired_stat_only_right sqrt (fun i => A (σ i)) (fun i => B (σ i)) = ttest_paired_stat_only_right sqrt A B ∧
    ttest_paired_stat_only_left sqrt (fun i => A (σ i)) (fun i => B (σ i)) = ttest_paired_stat_only_left sqrt A B ∧
    ttest_paired_stat_only_both sqrt (fun i => A (σ i)) (fun i => B (σ i)) = ttest_paired_stat_only_both sqrt A B := by
  refine ⟨?_, ?_, ?_⟩
  · simp only [ttest_paired_stat_only_right]; perm_sum σ
  · simp only [ttest_paired_stat_only_left]; perm_sum σ
  · simp only [ttest_paired_stat_only_both]; perm_sum σ

/-! ### p-value statement of nbs_bct (FRAGMENT `pvals[i] = np.size(np.where(null >= sz_links[i])) / k`; `null`, `sz_links`, `i`
are free: nothing is claimed about how the surrounding loops compute them, and `null` is taken to have k entries) -/

--@ C19 : nbs_bct
theorem nbs_pvalue_is_null_fraction {k c : ℕ} (null : Fin k → ℝ) (sz_links : Fin c → ℝ) (i : Fin c) :
    nbs_bct_pvals_i null sz_links i = ((Finset.univ.filter (fun u => sz_links i ≤ null u)).card : ℝ) / (k : ℝ) := by
  simp only [nbs_bct_pvals_i, ge_iff_le, Finset.sum_boole]

end C19
end Extracted
