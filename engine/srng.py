"""Scripted RandomState: serves random draws from a script (bounded counterpart of 'for all seeds', and replay of counter-models).

bct.utils.get_rng passes RandomState instances through unchanged, so an instance of Scripted given as `seed=` drives the real
code.  When the script is exhausted either ScriptExhausted is raised (explorer mode) or a seeded fallback generator continues.
"""
import itertools
import numpy as np


class ScriptExhausted(Exception):
    def __init__(self, kind, arg):
        Exception.__init__(self, kind, arg)
        self.kind, self.arg = kind, arg


class DrawLimit(Exception):
    """More draws than the cap: the code under test is (probably) in a loop that cannot make progress; termination is not
    part of any property, the case is skipped and counted."""


class Scripted(np.random.RandomState):
    def __init__(self, script=(), fallback_seed=None, max_log=2000, max_draws=20000):
        np.random.RandomState.__init__(self, 0 if fallback_seed is None else fallback_seed)
        self.script = list(script)
        self.pos = 0
        self.fallback = fallback_seed is not None
        self._fb = np.random.RandomState(fallback_seed) if self.fallback else None
        self.log = []
        self.max_log = max_log
        self.max_draws = max_draws
        self.ndraws = 0

    # -- one primitive draw -------------------------------------------------------------------
    def _draw(self, kind, arg):
        self.ndraws += 1
        if self.ndraws > self.max_draws:
            raise DrawLimit(kind, arg)
        if self.pos < len(self.script):
            v = self.script[self.pos]
            self.pos += 1
        elif self.fallback:
            if kind == 'randint':
                v = int(self._fb.randint(arg))
            elif kind == 'random':
                v = float(self._fb.random_sample())
            elif kind == 'perm':
                v = tuple(int(x) for x in self._fb.permutation(arg))
            else:
                raise AssertionError(kind)
        else:
            raise ScriptExhausted(kind, arg)
        if len(self.log) < self.max_log:
            self.log.append((kind, arg, v))
        return v

    # -- numpy API used by bct ----------------------------------------------------------------
    def randint(self, low, high=None, size=None, dtype=int):
        if high is None:
            lo, hi = 0, low
        else:
            lo, hi = low, high
        k = int(hi) - int(lo)
        if k <= 0:
            raise ValueError('low >= high')
        if size is None:
            return lo + int(self._draw('randint', k))
        shape = (size,) if isinstance(size, (int, np.integer)) else tuple(size)
        cnt = int(np.prod(shape))
        return np.array([lo + int(self._draw('randint', k)) for _ in range(cnt)], dtype=int).reshape(shape)

    def random_sample(self, size=None):
        if size is None:
            return float(self._draw('random', None))
        shape = (size,) if isinstance(size, (int, np.integer)) else tuple(size)
        cnt = int(np.prod(shape))
        return np.array([float(self._draw('random', None)) for _ in range(cnt)]).reshape(shape)

    random = random_sample
    ranf = random_sample
    sample = random_sample

    def rand(self, *shape):
        return self.random_sample(shape if shape else None)

    def permutation(self, x):
        if isinstance(x, (int, np.integer)):
            n = int(x)
            p = self._draw('perm', n)
            return np.array(p, dtype=int)
        arr = np.array(x)
        p = self._draw('perm', len(arr))
        return arr[np.array(p, dtype=int)]

    def shuffle(self, x):
        p = self._draw('perm', len(x))
        x[:] = np.array(x)[np.array(p, dtype=int)]

    def choice(self, a, size=None, replace=True, p=None):
        arr = np.arange(a) if isinstance(a, (int, np.integer)) else np.array(a)
        if size is None:
            return arr[self._draw('randint', len(arr))]
        raise NotImplementedError('Scripted.choice with size')


def default_options(kind, arg, randoms=(0.25, 0.75), max_perms=24):
    if kind == 'randint':
        return list(range(arg))
    if kind == 'random':
        return list(randoms)
    if kind == 'perm':
        perms = list(itertools.islice(itertools.permutations(range(arg)), max_perms)) if arg <= 4 else None
        if perms is None:
            r = np.random.RandomState(arg)
            perms = [tuple(range(arg)), tuple(range(arg - 1, -1, -1))] + [tuple(int(x) for x in r.permutation(arg)) for _ in range(max(0, min(max_perms, 6) - 2))]
        return perms
    raise AssertionError(kind)


def explore(run, max_draws, options=default_options, fallback_seed=12345, max_runs=None, draw_cap=400):
    """DFS over every sequence of random choices of length <= max_draws.

    run(rng) executes the code under test with rng as its generator and returns anything; it is called once per complete
    script.  Scripts shorter than max_draws raise ScriptExhausted and are extended by every option; at depth max_draws the
    script is completed by a seeded fallback stream.  Yields (script, result_of_run).
    """
    stack = [()]
    runs = 0
    while stack:
        script = stack.pop()
        if len(script) >= max_draws:
            rng = Scripted(script, fallback_seed=fallback_seed, max_draws=draw_cap)
            yield script, run(rng)
            runs += 1
        else:
            rng = Scripted(script)
            try:
                res = run(rng)
            except ScriptExhausted as e:
                for o in reversed(options(e.kind, e.arg)):
                    stack.append(script + (o,))
                continue
            yield script, res
            runs += 1
        if max_runs is not None and runs >= max_runs:
            return
