"""Shared plumbing for every check: result collection, evidence, known findings, exit codes.

Exit codes (DESIGN 4.2/11): 0 held (KNOWN-FINDING lines allowed), 1 violation (a VIOLATION line was printed),
2 undecided (an obligation outside the lock did not discharge / solver error), 3 checker error.
"""
import json, os, sys, time, subprocess, hashlib, traceback, fnmatch

VERIF = os.path.dirname(os.path.dirname(os.path.abspath(__file__)))
REPO = os.environ.get('VERIF_REPO', '/repo')
# runs against a scratch copy (VERIF_REPO set, used for seeded-defect experiments) must not overwrite the evidence of /repo
EVID_DIR = os.path.join(VERIF, 'evidence' if REPO == '/repo' else 'evidence_scratch')
REPLAY_DIR = os.path.join(VERIF, 'replay')
KNOWN = os.path.join(VERIF, 'known_findings.json')
SCHEMA = '/root/.vp/EVIDENCE.schema.json'

SEMANTICS_ASSUMED = [
    "float64 arithmetic is treated as real arithmetic (proved clauses are exact equalities over the reals; bounded tier compares with rtol 1e-9 / atol 1e-12)",
    "Python int is the mathematical integers; numpy integer dtypes do not overflow (indices < n, counts < n*n)",
    "inputs are finite-valued square 2-D float arrays; distinct array parameters do not alias each other",
    "each numpy primitive used by a function under contract behaves as specified in engine/pyvc/npspec.py (assumed contract on a dependency, cross-checked against CPython by the concrete-mode self test)",
    "decorators (@due.dcite) are transparent; partial correctness only (termination is not proved)",
]


def repo_status():
    try:
        return subprocess.run(['git', '-C', REPO, 'status', '--porcelain'], capture_output=True, text=True, timeout=60).stdout
    except Exception as e:  # pragma: no cover
        return 'ERR ' + repr(e)


def jsonable(x):
    import numpy as np
    if isinstance(x, dict):
        return {str(k): jsonable(v) for k, v in x.items()}
    if isinstance(x, (list, tuple, set, frozenset)):
        return [jsonable(v) for v in x]
    if isinstance(x, np.ndarray):
        return jsonable(x.tolist())
    if isinstance(x, (np.integer,)):
        return int(x)
    if isinstance(x, (np.floating,)):
        x = float(x)
    if isinstance(x, float):
        if x != x:
            return 'nan'
        if x in (float('inf'), float('-inf')):
            return 'inf' if x > 0 else '-inf'
        return x
    if isinstance(x, (np.bool_,)):
        return bool(x)
    if isinstance(x, (int, str, bool)) or x is None:
        return x
    return repr(x)


class Obligation:
    __slots__ = ('name', 'function', 'status', 'backend', 'seconds', 'detail', 'kind')

    def __init__(self, name, function, status, backend, seconds=0.0, detail='', kind='vc'):
        self.name, self.function, self.status, self.backend = name, function, status, backend
        self.seconds, self.detail, self.kind = seconds, detail, kind

    def to_json(self):
        return {'name': self.name, 'function': self.function, 'status': self.status, 'backend': self.backend,
                'seconds': round(self.seconds, 4), 'detail': self.detail[:2000], 'kind': self.kind}


class Run:
    """Collects what one check run did and writes /verif/evidence/<id>.json."""

    def __init__(self, pid, tier, seed, level, technique=''):
        self.pid, self.tier, self.seed, self.level = pid, tier, int(seed), level
        self.technique = technique
        self.t0 = time.time()
        self.obligations = []          # proved tier
        self.functions_under_contract = []
        self.abstracted = []
        self.bounded = {}              # name -> dict(bounds, evaluations, nontrivial, samples, exhaustive, rule)
        self.violations = []           # dict(key, what, replay)
        self.known_hits = []
        self.undecided = []
        self.errors = []
        self.assumptions = list(SEMANTICS_ASSUMED)
        self.trusted = []
        self.notes = []
        self.extra = {}
        self._status0 = repo_status()
        kf = json.load(open(KNOWN)) if os.path.exists(KNOWN) else {'findings': [], 'fixed': []}
        self.known = [f for f in kf.get('findings', []) if f.get('property') == pid]
        self.fixed = [f for f in kf.get('fixed', []) if f.get('property') == pid]
        self._known_seen = set()

    # ---- proved tier -------------------------------------------------------------------------
    def add_obligations(self, obls):
        self.obligations.extend(obls)

    # ---- bounded tier ------------------------------------------------------------------------
    def bounded_part(self, name, bounds, rule, exhaustive=False):
        d = self.bounded.setdefault(name, {'bounds': bounds, 'rule': rule, 'evaluations': 0, 'nontrivial_keys': set(),
                                           'samples': [], 'exhaustive': exhaustive})
        return d

    def count(self, name, key=None, nontrivial=False, sample=None, n=1):
        d = self.bounded[name]
        d['evaluations'] += n
        if nontrivial and key is not None:
            d['nontrivial_keys'].add(key)
        if sample is not None and len(d['samples']) < 3:
            d['samples'].append(jsonable(sample))

    def merge_bounded(self, name, evaluations, nontrivial_keys, samples):
        d = self.bounded[name]
        d['evaluations'] += evaluations
        d['nontrivial_keys'].update(nontrivial_keys)
        for s in samples:
            if len(d['samples']) < 3:
                d['samples'].append(jsonable(s))

    # ---- violations --------------------------------------------------------------------------
    def _match_known(self, key):
        for f in self.known:
            if fnmatch.fnmatchcase(key, f['key']):
                return f
        return None

    def violation(self, key, what, witness=None, no_input=False, verifier_output=None):
        """key = '<function>/<clause>/<input class>' ; a listed known finding with a matching key is reported as such."""
        f = self._match_known(key)
        if f is not None:
            if f['key'] not in self._known_seen:
                self._known_seen.add(f['key'])
                self.known_hits.append({'key': f['key'], 'what': f['what'], 'first_witness': jsonable(witness)})
            return False
        if any(v['key'] == key for v in self.violations):
            return True
        os.makedirs(os.path.join(REPLAY_DIR, self.pid), exist_ok=True)
        fn = os.path.join(REPLAY_DIR, self.pid, hashlib.sha1(key.encode()).hexdigest()[:12] + '.json')
        rec = {'property': self.pid, 'key': key, 'what': what, 'witness': jsonable(witness),
               'no_failing_input_found': bool(no_input), 'verifier_output': verifier_output}
        with open(fn, 'w') as fh:
            json.dump(rec, fh, indent=1)
        self.violations.append({'key': key, 'what': what, 'replay': fn, 'no_input': bool(no_input)})
        return True

    def error(self, what):
        self.errors.append(what)

    def undecide(self, what):
        self.undecided.append(what)

    # ---- finish ------------------------------------------------------------------------------
    def finish(self):
        wall = time.time() - self.t0
        status1 = repo_status()
        if status1 != self._status0:
            self.errors.append('check modified /repo: %r -> %r' % (self._status0, status1))
        obl = [o for o in self.obligations if o.kind != 'known']
        n_obl = len(obl)
        n_dis = sum(1 for o in obl if o.status == 'discharged')
        by_backend = {}
        for o in obl:
            if o.status == 'discharged':
                by_backend[o.backend] = by_backend.get(o.backend, 0) + 1
        solver_s = sum(o.seconds for o in self.obligations)
        evals = sum(d['evaluations'] for d in self.bounded.values())
        nontriv = sum(len(d['nontrivial_keys']) for d in self.bounded.values())
        samples = []
        for nme, d in self.bounded.items():
            for s in d['samples'][:2]:
                samples.append({'part': nme, 'case': s})
        for o in obl[:3]:
            samples.append({'obligation': o.name, 'function': o.function, 'status': o.status, 'backend': o.backend})
        cov = {
            'evaluations': evals, 'distinct_nontrivial': nontriv,
            'rule': ' || '.join('%s: %s' % (k, d['rule']) for k, d in self.bounded.items()) or 'no bounded part',
            'samples': samples or [{'note': 'no case executed'}],
            'obligations': n_obl, 'discharged': n_dis,
            'checker_cmd': './check %s --tier %s' % (self.pid, self.tier),
            'trusted_base': self.trusted,
            'functions_under_contract': sorted(set(self.functions_under_contract)),
            'by_backend': by_backend, 'solver_seconds': round(solver_s, 3),
            'abstracted_blocks': self.abstracted,
            'obligation_list': [o.to_json() for o in self.obligations][:4000],
            'bounded': {k: {'bounds': d['bounds'], 'rule': d['rule'], 'evaluations': d['evaluations'],
                            'distinct_nontrivial': len(d['nontrivial_keys']), 'exhaustive': d['exhaustive'],
                            'samples': d['samples'], 'label': 'bounded stand-in, never counted as proved'}
                        for k, d in self.bounded.items()},
            'exhaustive': bool(self.bounded) and all(d['exhaustive'] for d in self.bounded.values()),
            'known_findings_hit': self.known_hits,
            'fixed_entries': self.fixed,
            'slow_obligations_over_3s': [{'name': o.name, 'seconds': round(o.seconds, 1)} for o in self.obligations if o.seconds > 3 and o.backend != 'lean'][:40],
            'undecided': self.undecided, 'errors': self.errors, 'notes': self.notes,
            'explanation': self.technique,
        }
        cov.update(self.extra)
        ev = {'property_id': self.pid, 'tier': self.tier, 'seed': self.seed, 'level': self.level,
              'coverage': jsonable(cov), 'assumptions': self.assumptions, 'wall_s': round(wall, 2),
              'violations': len(self.violations)}
        os.makedirs(EVID_DIR, exist_ok=True)
        path = os.path.join(EVID_DIR, self.pid + '.json')
        with open(path, 'w') as fh:
            json.dump(ev, fh, indent=1)
        try:
            import jsonschema
            jsonschema.validate(ev, json.load(open(SCHEMA)))
        except Exception as e:
            self.errors.append('evidence does not validate: ' + str(e)[:300])
        for h in self.known_hits:
            print('KNOWN-FINDING: property=%s %s [%s]' % (self.pid, h['what'], h['key']))
        for f in self.known:
            if f['key'] not in self._known_seen:
                print('note: known finding not exercised by this run (stale or out of this tier\'s scope): %s' % f['key'])
        print('%s %s: obligations %d/%d discharged (%s) solver %.1fs; bounded evaluations %d, distinct non-trivial %d; wall %.1fs'
              % (self.pid, self.tier, n_dis, n_obl, by_backend, solver_s, evals, nontriv, wall))
        for v in self.violations:
            print('VIOLATION property=%s replay=%s%s' % (self.pid, v['replay'], ' no-failing-input-found' if v['no_input'] else ''))
            print('  ' + v['key'] + ' :: ' + v['what'][:400])
        if self.violations:
            return 1
        if self.errors:
            for e in self.errors:
                print('CHECKER-ERROR ' + str(e)[:1000])
            return 3
        if self.undecided:
            for u in self.undecided:
                print('UNDECIDED ' + str(u)[:500])
            return 2
        return 0


def main_wrapper(fn):
    """Runs fn(tier, seed) -> exit code; any traceback is a checker error (3), never a violation."""
    import argparse
    ap = argparse.ArgumentParser()
    ap.add_argument('--tier', default=os.environ.get('VERIF_TIER', 'quick'))
    ap.add_argument('--replay', default=None)
    a = ap.parse_args(sys.argv[2:] if len(sys.argv) > 1 and not sys.argv[1].startswith('-') else sys.argv[1:])
    seed = int(os.environ.get('VERIF_SEED', '0') or 0)
    try:
        rc = fn(a.tier, seed, a.replay) if fn.__code__.co_argcount >= 3 else fn(a.tier, seed)
    except SystemExit:
        raise
    except BaseException:
        traceback.print_exc()
        print('CHECKER-ERROR traceback (exit 3; this is not a violation)')
        rc = 3
    sys.exit(rc)
