"""Corollaries (C03, C10, C16): agreement between routines, stated as lemmas over their proved contracts.

Each corollary is a contract on a harness function of contracts/corollary_src/ whose body only calls repository functions; every call is
replaced by a stub generated from the clause lists of the callee's own contract object (the very clauses that the callee is verified against
in the same run): the callee's requires become obligations of the corollary, exactly its ensures are assumed.  Names that the callee re-binds
(`G = binarize(G, copy=True)`) denote, in its ensures, its local value at return (a fresh matrix here); arg('G') denotes the actual argument."""
import os
import z3
from engine.pyvc.core import Contract, alloc, A2R, REAL
from engine.pyvc.run import callee_from_clauses
from contracts import distance as _d, dijkstra as _dj

SRC = os.path.join(os.path.dirname(os.path.abspath(__file__)), 'corollary_src', 'distances.py')
CONTRACTS = {}


def _setup(eng, st):
    n = z3.Int('n0c')
    st.pc.append(n >= 1)
    st.ghost['n0'] = n
    st.env['G'] = alloc(st, 2, z3.Const('G0', A2R), (n, n), REAL)


def _stub(c, results, rebinds=None, nparam='len(%s)'):
    ens = [e for e in c.ensures if e[0] != 'argument-untouched']
    return callee_from_clauses(c.name, list(c.params), list(c.requires), ens, results, ghosts={'n0': nparam % c.params[0]}, rebinds=rebinds)


_M = ('mat', 'n0', 'n0')
_CALLEES = {
    'distance_wei': _stub(_dj.CONTRACTS['distance_wei'], [_M, _M]),
    'distance_bin': _stub(_d.CONTRACTS['distance_bin'], [_M], rebinds={'G': _M}),
    'breadthdist': _stub(_d.CONTRACTS['breadthdist'], [('bmat', 'n0', 'n0'), _M]),
    'reachdist': _stub(_d.CONTRACTS['reachdist'], [('bmat', 'n0', 'n0'), _M], rebinds={'CIJ': _M}),
}
_N2 = "forall(lambda v, w: implies(And(inr(v, n0), inr(w, n0)), %s))"
_LEMMAS = "assume(lemma_walks(G, n0), lemma_wd(G, n0), lemma_wd_binary(G, n0))"

# C10 / C03: on a 0/1 matrix the weighted routine returns what the binary routine returns
CONTRACTS['distances_agree_on_binary'] = Contract(
    'corollary_src.distances', 'distances_agree_on_binary', ['G'], setup=_setup,
    requires=[('binary-matrix', _N2 % "Or(G[v, w] == 0, G[v, w] == 1)"), ('infinity-exceeds-any-hop-count', 'INF > n0')],
    ghost_before={'D, B = distance_wei(G)': _LEMMAS},
    ensures=[('distance_wei-equals-distance_bin', _N2 % "result(0)[v, w] == result(1)[v, w]")])
CONTRACTS['distances_agree_on_binary'].source = SRC
CONTRACTS['distances_agree_on_binary'].callees = _CALLEES

# C03 / C16: the three hop-distance routines agree entry by entry off the diagonal, and so do the two reachability flags
CONTRACTS['hop_distance_routines_agree'] = Contract(
    'corollary_src.distances', 'hop_distance_routines_agree', ['G'], setup=_setup,
    requires=[('no-self-loops', "forall(lambda a: implies(inr(a, n0), G[a, a] == 0))"), ('infinity-exceeds-any-hop-count', 'INF > n0 + 2')],
    ghost_before={'Db = distance_bin(G)': "assume(lemma_walks(G, n0))"},
    ensures=[('distance_bin-breadthdist-reachdist-agree', _N2 % "implies(v != w, And(result(0)[v, w] == result(1)[v, w], result(1)[v, w] == result(2)[v, w]))"),
             ('reachability-flags-agree-and-mean-finite-distance', _N2 % "implies(v != w, And(result(3)[v, w] == result(4)[v, w], iff(result(3)[v, w], result(0)[v, w] != INF)))")])
CONTRACTS['hop_distance_routines_agree'].source = SRC
CONTRACTS['hop_distance_routines_agree'].callees = _CALLEES


# ---- C12: the producer establishes what the consumer requires ------------------------------------------------------------------------
# retrieve_shortest_path is proved against the precondition FloydConsistent(L, SPL, hops, Pmat) (contracts/distance.py).  Here that precondition
# is an OBLIGATION at the call `retrieve_shortest_path(s, t, hops, Pmat)` with (SPL, hops, Pmat) the results of distance_wei_floyd(adjacency),
# about which exactly the ensures clauses of its two proved contracts are assumed (contracts/floyd.py: the distances, and the hop-count /
# next-node bookkeeping).  Ghost arguments of the consumer: L = adjacency, conn = "connection exists", reach = "reachable".
from contracts import floyd as _f
_FW, _FP = _f.CONTRACTS['distance_wei_floyd'], _f.CONTRACTS['distance_wei_floyd:paths']
_RSP = _d.CONTRACTS['retrieve_shortest_path']


def _setup_pf(eng, st):
    n = z3.Int('n0c')
    st.pc.append(n >= 1)
    st.ghost['n0'] = n
    st.env['adjacency'] = alloc(st, 2, z3.Const('G0', A2R), (n, n), REAL)
    st.env['s'] = z3.Int('s_in')
    st.env['t'] = z3.Int('t_in')


_req = {c[0]: c for c in list(_FW.requires) + list(_FP.requires)}
_PF_CALLEES = {
    'distance_wei_floyd': callee_from_clauses('distance_wei_floyd', ['adjacency', 'transform'], list(_req.values()),
                                              [e for e in list(_FW.ensures) + list(_FP.ensures) if e[0] != 'argument-untouched'],
                                              [_M, _M, ('imat', 'n0', 'n0')], ghosts={'n0': 'len(adjacency)'}),
    'retrieve_shortest_path': callee_from_clauses('retrieve_shortest_path', ['s', 't', 'hops', 'Pmat'], list(_RSP.requires), [], [],
                                                  ghosts={'n0': 'len(hops)', 'L': 'adjacency', 'SPL': 'SPL',
                                                          'conn': "lam2(lambda x, y: (1 if adjacency[x, y] != 0 else 0), len(hops))",
                                                          'reach': "lam2(lambda x, y: (1 if Or(x == y, sdist(adjacency, x, y) >= 1) else 0), len(hops))"}),
}
CONTRACTS['path_from_floyd'] = Contract(
    'corollary_src.distances', 'path_from_floyd', ['adjacency', 's', 't'], setup=_setup_pf,
    requires=list(_req.values()) + [('s-t-are-nodes', 'And(inr(s, n0), inr(t, n0))')],
    ghost_before={'SPL, hops, Pmat = distance_wei_floyd(*': "assume(lemma_walks(adjacency, n0))",
                  'return retrieve_shortest_path(*': "; ".join("check('%s', %s)" % (nm, _N2 % body) for nm, body in [
                      ('FC-hops-nonnegative', "hops[v, w] >= 0"),
                      ('FC-zero-hops-iff-diagonal-or-unreachable', "iff(hops[v, w] == 0, Or(v == w, Not(Or(v == w, sdist(adjacency, v, w) >= 1))))"),
                      ('FC-next-node-along-a-connection', "implies(hops[v, w] > 0, And(inr(Pmat[v, w], n0), adjacency[v, Pmat[v, w]] != 0))"),
                      ('FC-hops-drop-by-one', "implies(hops[v, w] > 0, hops[Pmat[v, w], w] == hops[v, w] - 1)"),
                      ('FC-length-drops-by-the-connection', "implies(hops[v, w] > 0, SPL[v, w] == adjacency[v, Pmat[v, w]] + SPL[Pmat[v, w], w])"),
                      ('FC-target-still-reachable', "implies(hops[v, w] > 0, Or(Pmat[v, w] == w, sdist(adjacency, Pmat[v, w], w) >= 1))")])},
    ensures=[])
CONTRACTS['path_from_floyd'].source = SRC
CONTRACTS['path_from_floyd'].callees = _PF_CALLEES


# ---- C10: global efficiency, weighted = binary on 0/1 matrices -----------------------------------------------------------------------------
_EB, _EW = _d.CONTRACTS['efficiency_bin'], _dj.CONTRACTS['efficiency_wei']
_EFF_CALLEES = {
    'efficiency_bin': callee_from_clauses('efficiency_bin', ['G', 'local'], list(_EB.requires), [e for e in _EB.ensures if e[0] != 'argument-untouched'], [('real',)],
                                          ghosts={'n0': 'len(G)'}, rebinds={'G': _M, 'e': _M}),
    'efficiency_wei': callee_from_clauses('efficiency_wei', ['Gw', 'local'], list(_EW.requires), [e for e in _EW.ensures if e[0] != 'argument-untouched'], [('real',)],
                                          ghosts={'n0': 'len(Gw)', 'L': 'inverse_lengths(Gw)'}, rebinds={'Gl': _M, 'e': _M}),
}
CONTRACTS['efficiencies_agree_on_binary'] = Contract(
    'corollary_src.distances', 'efficiencies_agree_on_binary', ['G'], setup=_setup,
    requires=[('binary-matrix', _N2 % "Or(G[v, w] == 0, G[v, w] == 1)"), ('at-least-two-nodes', 'n0 >= 2'), ('infinity-exceeds-any-hop-count', 'INF > n0')],
    ghost_before={'Ew = efficiency_wei(*': "Linv = inverse_lengths(G); assume(lemma_walks(G, n0), lemma_wd(G, n0), lemma_wd_binary(G, n0), lemma_cells(Linv, G, n0))"},
    ghost_after={'Ew = efficiency_wei(*': "assume(lemma_cells(efficiency_wei__Gl, G, n0))",
                 'Eb = efficiency_bin(*': "assume(lemma_sdist_support(efficiency_bin__G, G, n0), lemma_cells(efficiency_wei__e, efficiency_bin__e, n0))"},
    ensures=[('efficiency_wei-equals-efficiency_bin', "result(0) == result(1)")])
CONTRACTS['efficiencies_agree_on_binary'].source = SRC
CONTRACTS['efficiencies_agree_on_binary'].callees = _EFF_CALLEES


# ---- C15: cores are nested as k grows (kcore_bu) ------------------------------------------------------------------------------------------
# Lemma over the proved contract of kcore_bu (contracts/core_c15.py), whose maximality clause holds for EVERY node set S that meets the bound
# inside itself (S is a specification-level argument of the contract): the stub lets the caller choose S.  For the (k+1)-core B take S = {} ;
# for the k-core A take S = the connected nodes of B: each of them has at least k+1 >= k neighbours inside that set, so it lies inside A.
from contracts import core_c15 as _k


def _setup_nest(eng, st):
    n = z3.Int('n0c')
    st.pc.append(n >= 1)
    st.ghost['n0'] = n
    st.env['CIJ'] = alloc(st, 2, z3.Const('C0', A2R), (n, n), REAL)
    st.env['k'] = z3.Int('k_in')


_KB = _k.CONTRACTS['kcore_bu']
_NEST_CALLEES = {'kcore_bu': callee_from_clauses('kcore_bu', ['CIJ', 'k'], list(_KB.requires), [e for e in _KB.ensures if e[0] != 'argument-untouched'], [_M, ('int',)],
                                                 ghosts={'n0': 'len(CIJ)', 'S': 'Scur'}, rebinds={'alive': ('bvec', 'n0')})}
CONTRACTS['cores_are_nested_bu'] = Contract(
    'corollary_src.distances', 'cores_are_nested_bu', ['CIJ', 'k'], setup=_setup_nest,
    requires=[('bound-positive', 'k >= 1'), ('undirected', _N2 % "iff(CIJ[v, w] != 0, CIJ[w, v] != 0)")],
    ghost_before={'B, kb = kcore_bu(*': "Scur = lam1(lambda q: False, n0)",
                  'A, ka = kcore_bu(*': "Scur = lam1(lambda q: ccnt(B, q, n0) > 0, n0); assume(lemma_count_sub(B, CIJ, Scur, n0))"},
    ensures=[('the-larger-core-lies-inside-the-smaller-one', _N2 % "implies(result(1)[v, w] != 0, result(0)[v, w] != 0)")])
CONTRACTS['cores_are_nested_bu'].source = SRC
CONTRACTS['cores_are_nested_bu'].callees = _NEST_CALLEES

# directed k-cores (in- plus out-degree): no symmetry needed; S = the nodes of the (k+1)-core that keep a connection
_KD = _k.CONTRACTS['kcore_bd']
CONTRACTS['cores_are_nested_bd'] = Contract(
    'corollary_src.distances', 'cores_are_nested_bd', ['CIJ', 'k'], setup=_setup_nest,
    requires=[('bound-positive', 'k >= 1')],
    ghost_before={'B, kb = kcore_bd(*': "Scur = lam1(lambda q: False, n0)",
                  'A, ka = kcore_bd(*': "Scur = lam1(lambda q: ccnt(B, q, n0) + rcnt(B, q, n0) > 0, n0); assume(lemma_count_sub(B, CIJ, Scur, n0)); "
                                        "check('both-ends-of-a-connection-of-the-larger-core-are-in-S', " + (_N2 % "implies(B[v, w] != 0, And(Scur[v], Scur[w], CIJ[v, w] != 0))") + ")"},
    ensures=[('the-larger-core-lies-inside-the-smaller-one', _N2 % "implies(result(1)[v, w] != 0, result(0)[v, w] != 0)")])
CONTRACTS['cores_are_nested_bd'].source = SRC
CONTRACTS['cores_are_nested_bd'].callees = {'kcore_bd': callee_from_clauses('kcore_bd', ['CIJ', 'k'], list(_KD.requires), [e for e in _KD.ensures if e[0] != 'argument-untouched'], [_M, ('int',)],
                                                                              ghosts={'n0': 'len(CIJ)', 'S': 'Scur'}, rebinds={'alive': ('bvec', 'n0')})}

# s-cores (strength): for 0 < s1 <= s2 the s2-core lies inside the s1-core (symmetric non-negative weights)
_KS = _k.CONTRACTS['score_wu']


def _setup_nest_s(eng, st):
    n = z3.Int('n0c')
    st.pc.append(n >= 1)
    st.ghost['n0'] = n
    st.env['CIJ'] = alloc(st, 2, z3.Const('C0', A2R), (n, n), REAL)
    st.env['s1'] = z3.Real('s1_in')
    st.env['s2'] = z3.Real('s2_in')


CONTRACTS['score_cores_are_nested'] = Contract(
    'corollary_src.distances', 'score_cores_are_nested', ['CIJ', 's1', 's2'], setup=_setup_nest_s,
    requires=[('bounds-ordered-and-positive', 'And(s1 > 0, s1 <= s2)'), ('weights-nonnegative', _N2 % "CIJ[v, w] >= 0"), ('undirected', _N2 % "CIJ[v, w] == CIJ[w, v]")],
    ghost_before={'B, sb = score_wu(*': "Scur = lam1(lambda q: False, n0)",
                  'A, sa = score_wu(*': "Scur = lam1(lambda q: csum(B, q, n0) > 0, n0); assume(lemma_sum_sub(B, CIJ, Scur, n0)); "
                                       "check('both-ends-of-a-connection-of-the-larger-core-are-in-S', " + (_N2 % "implies(B[v, w] != 0, And(Scur[v], Scur[w], CIJ[v, w] != 0))") + ")"},
    ensures=[('the-larger-core-lies-inside-the-smaller-one', _N2 % "implies(result(1)[v, w] != 0, result(0)[v, w] != 0)")])
CONTRACTS['score_cores_are_nested'].source = SRC
CONTRACTS['score_cores_are_nested'].callees = {'score_wu': callee_from_clauses('score_wu', ['CIJ', 's'], list(_KS.requires), [e for e in _KS.ensures if e[0] != 'argument-untouched'], [_M, ('int',)],
                                                                                 ghosts={'n0': 'len(CIJ)', 'S': 'Scur'}, rebinds={'alive': ('bvec', 'n0')})}


# ---- C12, transform='inv': the same producer / consumer link with the connection lengths L = 1/w (ghost) ------------------------------------------
_FWI, _FPI = _f.CONTRACTS['distance_wei_floyd:inv'], _f.CONTRACTS['distance_wei_floyd:paths:inv']
_reqi = {c[0]: c for c in list(_FWI.requires) + list(_FPI.requires)}


def _setup_pfi(eng, st):
    from engine.pyvc.core import invl, invl_axiom
    _setup_pf(eng, st)
    G = z3.Const('G0', A2R)
    st.pc.append(invl_axiom(G))
    st.ghost['L'] = alloc(st, 2, invl(G), (st.ghost['n0'], st.ghost['n0']), REAL)


CONTRACTS['path_from_floyd_inv'] = Contract(
    'corollary_src.distances', 'path_from_floyd_inv', ['adjacency', 's', 't'], setup=_setup_pfi,
    requires=list(_reqi.values()) + [('s-t-are-nodes', 'And(inr(s, n0), inr(t, n0))')],
    ghost_before={'SPL, hops, Pmat = distance_wei_floyd(*': "assume(lemma_walks(L, n0))",
                  'return retrieve_shortest_path(*': "; ".join("check('%s', %s)" % (nm, _N2 % body) for nm, body in [
                      ('FC-hops-nonnegative', "hops[v, w] >= 0"),
                      ('FC-zero-hops-iff-diagonal-or-unreachable', "iff(hops[v, w] == 0, Or(v == w, Not(Or(v == w, sdist(L, v, w) >= 1))))"),
                      ('FC-next-node-along-a-connection', "implies(hops[v, w] > 0, And(inr(Pmat[v, w], n0), L[v, Pmat[v, w]] != 0))"),
                      ('FC-hops-drop-by-one', "implies(hops[v, w] > 0, hops[Pmat[v, w], w] == hops[v, w] - 1)"),
                      ('FC-length-drops-by-the-connection', "implies(hops[v, w] > 0, SPL[v, w] == L[v, Pmat[v, w]] + SPL[Pmat[v, w], w])"),
                      ('FC-target-still-reachable', "implies(hops[v, w] > 0, Or(Pmat[v, w] == w, sdist(L, Pmat[v, w], w) >= 1))")])},
    ensures=[])
CONTRACTS['path_from_floyd_inv'].source = SRC
CONTRACTS['path_from_floyd_inv'].callees = {
    'distance_wei_floyd': callee_from_clauses('distance_wei_floyd', ['adjacency', 'transform'], list(_reqi.values()),
                                              [e for e in list(_FWI.ensures) + list(_FPI.ensures) if e[0] != 'argument-untouched'],
                                              [_M, _M, ('imat', 'n0', 'n0')], ghosts={'n0': 'len(adjacency)', 'L': 'inverse_lengths(adjacency)'}),
    'retrieve_shortest_path': callee_from_clauses('retrieve_shortest_path', ['s', 't', 'hops', 'Pmat'], list(_RSP.requires), [], [],
                                                  ghosts={'n0': 'len(hops)', 'L': 'L', 'SPL': 'SPL',
                                                          'conn': "lam2(lambda x, y: (1 if L[x, y] != 0 else 0), len(hops))",
                                                          'reach': "lam2(lambda x, y: (1 if Or(x == y, sdist(L, x, y) >= 1) else 0), len(hops))"}),
}
