"""Corollaries (C03, C10, C16): agreement between routines, stated as lemmas over their proved contracts.

Each corollary is a contract on a harness function of contracts/corollary_src/ whose body only calls repository functions; every call is
replaced by a stub generated from the clause lists of the callee's own contract object (the very clauses that the callee is verified against
in the same run): the callee's requires become obligations of the corollary, exactly its ensures are assumed.  Names that the callee re-binds
(`G = binarize(G, copy=True)`) denote, in its ensures, its local value at return (a fresh matrix here); arg('G') denotes the actual argument."""
import os
import z3
from engine.pyvc.core import Contract, alloc, A2R, REAL
from engine.pyvc.run import callee_from_clauses
from contracts import distance as _d, dijkstra as _dj

SRC = os.path.join(os.path.dirname(os.path.abspath(__file__)), 'corollary_src', 'distances.py')
CONTRACTS = {}


def _setup(eng, st):
    n = z3.Int('n0c')
    st.pc.append(n >= 1)
    st.ghost['n0'] = n
    st.env['G'] = alloc(st, 2, z3.Const('G0', A2R), (n, n), REAL)


def _stub(c, results, rebinds=None, nparam='len(%s)'):
    ens = [e for e in c.ensures if e[0] != 'argument-untouched']
    return callee_from_clauses(c.name, list(c.params), list(c.requires), ens, results, ghosts={'n0': nparam % c.params[0]}, rebinds=rebinds)


_M = ('mat', 'n0', 'n0')
_CALLEES = {
    'distance_wei': _stub(_dj.CONTRACTS['distance_wei'], [_M, _M]),
    'distance_bin': _stub(_d.CONTRACTS['distance_bin'], [_M], rebinds={'G': _M}),
    'breadthdist': _stub(_d.CONTRACTS['breadthdist'], [('bmat', 'n0', 'n0'), _M]),
    'reachdist': _stub(_d.CONTRACTS['reachdist'], [('bmat', 'n0', 'n0'), _M], rebinds={'CIJ': _M}),
}
_N2 = "forall(lambda v, w: implies(And(inr(v, n0), inr(w, n0)), %s))"
_LEMMAS = "assume(lemma_walks(G, n0), lemma_wd(G, n0), lemma_wd_binary(G, n0))"

# C10 / C03: on a 0/1 matrix the weighted routine returns what the binary routine returns
CONTRACTS['distances_agree_on_binary'] = Contract(
    'corollary_src.distances', 'distances_agree_on_binary', ['G'], setup=_setup,
    requires=[('binary-matrix', _N2 % "Or(G[v, w] == 0, G[v, w] == 1)"), ('infinity-exceeds-any-hop-count', 'INF > n0')],
    ghost_before={'D, B = distance_wei(G)': _LEMMAS},
    ensures=[('distance_wei-equals-distance_bin', _N2 % "result(0)[v, w] == result(1)[v, w]")])
CONTRACTS['distances_agree_on_binary'].source = SRC
CONTRACTS['distances_agree_on_binary'].callees = _CALLEES

# C03 / C16: the three hop-distance routines agree entry by entry off the diagonal, and so do the two reachability flags
CONTRACTS['hop_distance_routines_agree'] = Contract(
    'corollary_src.distances', 'hop_distance_routines_agree', ['G'], setup=_setup,
    requires=[('no-self-loops', "forall(lambda a: implies(inr(a, n0), G[a, a] == 0))"), ('infinity-exceeds-any-hop-count', 'INF > n0 + 2')],
    ghost_before={'Db = distance_bin(G)': "assume(lemma_walks(G, n0))"},
    ensures=[('distance_bin-breadthdist-reachdist-agree', _N2 % "implies(v != w, And(result(0)[v, w] == result(1)[v, w], result(1)[v, w] == result(2)[v, w]))"),
             ('reachability-flags-agree-and-mean-finite-distance', _N2 % "implies(v != w, And(result(3)[v, w] == result(4)[v, w], iff(result(3)[v, w], result(0)[v, w] != INF)))")])
CONTRACTS['hop_distance_routines_agree'].source = SRC
CONTRACTS['hop_distance_routines_agree'].callees = _CALLEES
