"""Corollary for C14: participation_coef gives the same result for any renaming of the labels.  Two label vectors that induce the same
partition (ci[y] == ci[z] <=> cj[y] == cj[z]; contiguous or not, starting anywhere) give the same participation coefficients.  Lemma over the
proved contract of participation_coef (contracts/centrality_c14.py); Lean: msq_relabel."""
import os
import z3
from engine.pyvc.core import Contract, alloc, A2R, A1I, INT, REAL
from engine.pyvc.run import callee_from_clauses
from contracts import centrality_c14 as _c14

SRC = os.path.join(os.path.dirname(os.path.abspath(__file__)), 'corollary_src', 'partitions.py')
CONTRACTS = {}
_PC = _c14.CONTRACTS['participation_coef']


def _setup(eng, st):
    n = z3.Int('n0c')
    st.pc.append(n >= 1)
    st.ghost['n0'] = n
    st.env['W'] = alloc(st, 2, z3.Const('W0', A2R), (n, n), REAL)
    st.env['ci'] = alloc(st, 1, z3.Const('ci_in', A1I), (n,), INT)
    st.env['cj'] = alloc(st, 1, z3.Const('cj_in', A1I), (n,), INT)


_STUB = callee_from_clauses('participation_coef', ['W', 'ci', 'degree'], list(_PC.requires), [e for e in _PC.ensures if e[0] != 'arguments-untouched'], [('vec', 'n0')],
                            ghosts={'n0': 'len(W)'}, rebinds={'ci': ('ivec', 'n0')}, fresh_ghosts=['unique_count_last'])
c = Contract('corollary_src.partitions', 'participation_coef_relabelled', ['W', 'ci', 'cj'], setup=_setup,
             requires=[('same-partition', "forall(lambda y, z: implies(And(inr(y, n0), inr(z, n0)), iff(ci[y] == ci[z], cj[y] == cj[z])))")],
             ghost_after={'P1 = participation_coef(*': "c1 = participation_coef__ci; k1 = participation_coef__unique_count_last",
                          'P2 = participation_coef(*': "assume(lemma_msq_relabel(W, c1, participation_coef__ci, k1, participation_coef__unique_count_last, n0))"},
             ensures=[('same-participation-coefficients', "forall(lambda x: implies(inr(x, n0), result(0)[x] == result(1)[x]))")])
c.source = SRC
c.callees = {'participation_coef': _STUB}
CONTRACTS['participation_coef_relabelled'] = c
