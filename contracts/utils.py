"""Sidecar contracts for bct/utils/other.py and bct/utils/miscellaneous_utilities.py (C17, parts of C05/C06)."""
import z3
from engine.pyvc.core import Contract, Opaque, alloc, fresh, A2R, INT, REAL, BOOL

OTHER = 'bct.utils.other'
MISC = 'bct.utils.miscellaneous_utilities'


def _setup_W(extra=()):
    def setup(eng, st):
        n = z3.Int('n')
        st.pc.append(n >= 1)
        st.env['W'] = alloc(st, 2, z3.Const('W0', A2R), (n, n), REAL)
        st.ghost['n0'] = n
        st.env['copy'] = z3.Bool('copy')
        for nm, sort in extra:
            st.env[nm] = z3.Const(nm, sort)
    return setup


CELLS = "forall(lambda x, y: implies(And(inr(x, n0), inr(y, n0)), %s))"
COPY_CLAUSES = [
    ('copy-true-argument-untouched', "implies(copy, unchanged('W'))"),
    ('copy-true-result-is-fresh', "implies(copy, not same_object(result(), argref('W')))"),
    ('copy-false-argument-holds-result', "implies(not copy, same_object(result(), argref('W')))"),
]
CONTRACTS = {}
CONTRACTS['threshold_absolute'] = Contract(
    OTHER, 'threshold_absolute', ['W', 'thr', 'copy'], setup=_setup_W([('thr', REAL)]),
    ensures=[('keeps-exactly-offdiagonal-entries-not-below-thr',
              CELLS % "result()[x, y] == (arg('W')[x, y] if (x != y and arg('W')[x, y] >= thr) else 0)")] + COPY_CLAUSES)
CONTRACTS['binarize'] = Contract(
    OTHER, 'binarize', ['W', 'copy'], setup=_setup_W(),
    ensures=[('every-nonzero-becomes-one', CELLS % "result()[x, y] == (1 if arg('W')[x, y] != 0 else 0)")] + COPY_CLAUSES)
CONTRACTS['invert'] = Contract(
    OTHER, 'invert', ['W', 'copy'], setup=_setup_W(),
    ensures=[('every-nonzero-w-becomes-1/w', CELLS % "result()[x, y] == (1 / arg('W')[x, y] if arg('W')[x, y] != 0 else 0)"),
             ('invert-undoes-itself-on-the-support', CELLS % "implies(arg('W')[x, y] != 0, And(result()[x, y] != 0, 1 / result()[x, y] == arg('W')[x, y]))")] + COPY_CLAUSES)
CONTRACTS['normalize'] = Contract(
    OTHER, 'normalize', ['W', 'copy'], setup=_setup_W(),
    requires=[('some-nonzero-entry', "And(inr(wx0, n0), inr(wy0, n0), W[wx0, wy0] != 0)")],
    ensures=[('no-magnitude-above-one', CELLS % "And(result()[x, y] <= 1, result()[x, y] >= -1)"),
             ('largest-magnitude-is-one', "Or(result()[max_witness[0], max_witness[1]] == 1, result()[max_witness[0], max_witness[1]] == -1)"),
             ('entries-scaled-by-one-common-factor', CELLS % "result()[x, y] * abs(arg('W')[max_witness[0], max_witness[1]]) == arg('W')[x, y]")] + COPY_CLAUSES)
CONTRACTS['normalize'].setup = _setup_W([('wx0', INT), ('wy0', INT)])


def _setup_round(eng, st):
    st.env['x'] = z3.Real('x')


CONTRACTS['teachers_round'] = Contract(
    MISC, 'teachers_round', ['x'], setup=_setup_round,
    # declarative: the nearest integer, and on an exact half the one farther from zero (this determines the result uniquely)
    ensures=[('nearest-integer', "And(result() >= x - 0.5, result() <= x + 0.5)"),
             ('half-rounds-away-from-zero', "And(implies(result() - x == 0.5, x > 0), implies(x - result() == 0.5, x < 0))")])


# how a solver counter-model maps back to the real function's arguments (engine/pyvc/solve.py:_model_inputs)
for _k in ('threshold_absolute', 'binarize', 'invert', 'normalize'):
    CONTRACTS[_k].inputs = [('W', 'W0', 'mat', 'n'), ('copy', 'copy', 'bool')] + ([('thr', 'thr', 'real')] if _k == 'threshold_absolute' else [])
CONTRACTS['teachers_round'].inputs = [('x', 'x', 'real')]


# threshold_proportional: the clauses within reach (diagonal, symmetry, kept entries keep their weight, kept >= dropped);
# the exact-count clause (kept = min(round(p * possible), #links)) needs an injective-enumeration counting lemma: bounded only.
def _setup_tp(eng, st):
    n = z3.Int('n')
    st.pc.append(n >= 1)
    st.env['W'] = alloc(st, 2, z3.Const('W0', A2R), (n, n), REAL)
    st.ghost['n0'] = n
    st.env['copy'] = z3.Bool('copy')
    st.env['p'] = z3.Real('p')


_NNZ = "tsum(lam2(lambda x, y: (1 if %s[x, y] != 0 else 0), n0), n0)"
_KEPT = "(en if en <= np.size(ind[0]) else np.size(ind[0]))"
CONTRACTS['threshold_proportional'] = Contract(
    OTHER, 'threshold_proportional', ['W', 'p', 'copy'], setup=_setup_tp,
    requires=[('weights-nonnegative', CELLS % "W[x, y] >= 0")],
    ghost_before={
        # counting argument, anchored before the statements it is about: the cells that survive are exactly the `kept` strongest
        # positions of the enumeration ind (ranks 0..kept-1 of the descending order I), pairwise distinct cells => their number is kept
        'if ud == 2': "Wtri = snapshot(W); kept = " + _KEPT + "; "
                      "check('kept-cells-are-still-nonzero', forall(lambda t: implies(And(t >= 0, t < kept), And(inr(ind[0][I[t]], n), inr(ind[1][I[t]], n), W[ind[0][I[t]], ind[1][I[t]]] != 0)))); "
                      "check('kept-cells-are-pairwise-distinct', forall(lambda t, u: implies(And(t >= 0, t < u, u < kept), Or(ind[0][I[t]] != ind[0][I[u]], ind[1][I[t]] != ind[1][I[u]])))); "
                      "check('dropped-ranks-are-zeroed', forall(lambda t: implies(And(t >= kept, t < np.size(ind[0])), W[ind[0][I[t]], ind[1][I[t]]] == 0), pattern=I[t])); "
                      "check('every-surviving-cell-has-a-kept-rank', forall(lambda x, y: implies(And(inr(x, n), inr(y, n), W[x, y] != 0), "
                      "And((np.size(ind[0]) - 1 - argsort_inverse(where_index(ind[0], x, y))) >= 0, (np.size(ind[0]) - 1 - argsort_inverse(where_index(ind[0], x, y))) < kept, ind[0][I[(np.size(ind[0]) - 1 - argsort_inverse(where_index(ind[0], x, y)))]] == x, ind[1][I[(np.size(ind[0]) - 1 - argsort_inverse(where_index(ind[0], x, y)))]] == y)))); "
                      "assume(lemma_image_count(lam2(lambda x, y: (1 if W[x, y] != 0 else 0), n), lam1(lambda t: ind[0][I[t]], kept), lam1(lambda t: ind[1][I[t]], kept), kept, n, "
                      "lambda x, y: np.size(ind[0]) - 1 - argsort_inverse(where_index(ind[0], x, y))))",
        'return W': "assume(implies(ud == 2, lemma_tsum_plus_transpose(lam2(lambda x, y: (1 if Wtri[x, y] != 0 else 0), n), lam2(lambda x, y: (1 if W[x, y] != 0 else 0), n), n)))",
    },
    ensures=[('diagonal-cleared', "forall(lambda x: implies(inr(x, n0), result()[x, x] == 0))"),
             ('symmetric-input-gives-symmetric-output', "implies(" + (CELLS % "arg('W')[x, y] == arg('W')[y, x]") + ", " + (CELLS % "result()[x, y] == result()[y, x]") + ")"),
             # (in the branch taken when np.allclose(W, W.T) holds the output is rebuilt from the upper triangle, so a kept cell carries the weight of the cell or of its mirror cell)
             ('kept-entries-keep-their-weight-others-are-zero', CELLS % "Or(result()[x, y] == 0, And(x != y, Or(result()[x, y] == arg('W')[x, y], result()[x, y] == arg('W')[y, x])))"),
             ('number-kept-is-the-rounded-share-or-all-links', "And(ud * " + _KEPT + " == " + (_NNZ % "result()") + ", Or(ud == 1, ud == 2))"),
             ('share-is-the-rounded-fraction-of-the-possible-connections', "rounds_to(en, (n0 * n0 - n0) * p / ud)"),
             ('kept-are-the-strongest', "forall(lambda t, u: implies(And(t >= 0, t < " + _KEPT + ", u >= " + _KEPT + ", u < np.size(ind[0])), "
                                        "And(result()[ind[0][I[t]], ind[1][I[t]]] >= arg('W')[ind[0][I[u]], ind[1][I[u]]], Wtri[ind[0][I[u]], ind[1][I[u]]] == 0, "
                                        "result()[ind[0][I[t]], ind[1][I[t]]] != 0)))"),
             ] + COPY_CLAUSES,
    ensures_raises=[('rejects-only-p-outside-0-1', "And(raised('BCTParamError'), Or(p > 1, p < 0))")])
CONTRACTS['threshold_proportional'].inputs = [('W', 'W0', 'mat', 'n'), ('copy', 'copy', 'bool'), ('p', 'p', 'real')]


def _tp_ghosts(args, result, locs):
    import numpy as np
    R = np.asarray(result, dtype=float)
    return {'Wtri': np.triu(R, 1) if locs.get('ud') == 2 else R.copy()}


CONTRACTS['threshold_proportional'].concrete_ghosts = _tp_ghosts


# ---- weight_conversion(W, wcm, copy=True): dispatch to binarize / normalize / invert through their proved contracts -------------------------
# (copy=True only: the in-place variants are specified on the three utilities themselves; a stub never writes.)
from engine.pyvc.run import callee_from_clauses as _cfc


def _setup_wc(eng, st):
    n = z3.Int('n')
    st.pc.append(n >= 1)
    st.env['W'] = alloc(st, 2, z3.Const('W0', A2R), (n, n), REAL)
    st.ghost['n0'] = n
    st.env['copy'] = True
    bs = {lit: z3.Bool('wcm_is_' + lit) for lit in ('binarize', 'normalize', 'lengths')}
    st.pc.append(z3.And(*[z3.Not(z3.And(bs[a], bs[b])) for a in bs for b in bs if a < b]))
    st.env['wcm'] = Opaque('strsym', eq=lambda lit: bs.get(lit, z3.BoolVal(False)))
    for lit, b in bs.items():
        st.ghost['wcm_is_' + lit] = b
    for nm in ('wx0', 'wy0'):
        st.env[nm] = z3.Int(nm)


def _cells_only(c):
    # (clauses about the copy flag are specified on the utilities themselves; clauses that name the witness of np.max are internal to normalize)
    return [e for e in c.ensures if not e[0].startswith('copy-') and 'max_witness' not in e[1]]


_WC_ENS = []
for _lit, _key in (('binarize', 'binarize'), ('normalize', 'normalize'), ('lengths', 'invert')):
    for _nm, _src in _cells_only(CONTRACTS[_key]):
        _WC_ENS.append(('%s: %s' % (_lit, _nm), "implies(wcm_is_%s, %s)" % (_lit, _src)))
CONTRACTS['weight_conversion'] = Contract(
    OTHER, 'weight_conversion', ['W', 'wcm', 'copy'], setup=_setup_wc,
    requires=[('normalize-needs-a-nonzero-entry', "implies(wcm_is_normalize, And(inr(wx0, n0), inr(wy0, n0), W[wx0, wy0] != 0))")],
    ensures=_WC_ENS + [('argument-untouched', "unchanged('W')")],
    ensures_raises=[('unknown-command-is-rejected', "And(raised('NotImplementedError'), Not(Or(wcm_is_binarize, wcm_is_normalize, wcm_is_lengths)))")])
CONTRACTS['weight_conversion'].callees = {
    k: _cfc(k, ['W', 'copy'], list(CONTRACTS[k].requires), _cells_only(CONTRACTS[k]), [('mat', 'n0', 'n0')], ghosts={'n0': 'len(W)', 'wx0': 'wx0', 'wy0': 'wy0'})
    for k in ('binarize', 'normalize', 'invert')}
