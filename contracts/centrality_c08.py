"""Sidecar contracts for the betweenness routines (C08).  Only the FORWARD PASS of betweenness_bin (lengths and numbers of shortest
paths by matrix powers) is within reach of the VC generator; the dependency accumulation (second loop) and the queue-based routines are
bounded only (DESIGN 5/C08, 12.2)."""
import z3
from engine.pyvc.core import Contract, Opaque, alloc, fresh, A2R, A1I, INT, REAL, BOOL

MOD = 'bct.algorithms.centrality'
CONTRACTS = {}


def _setup_bb(eng, st):
    n = z3.Int('n')
    st.pc.append(n >= 1)
    st.ghost['n0'] = n
    st.env['G'] = alloc(st, 2, z3.Const('G0', A2R), (n, n), REAL)


_C = "forall(lambda x, y: implies(And(inr(x, n0), inr(y, n0)), %s))"
_CD = "forall(lambda x, y: implies(And(inr(x, n0), inr(y, n0), x != y), %s))"
BB_INV = [
    ('shape', "And(d >= 1, n == n0)"),
    ('G-is-the-binary-argument', _C % "And(G[x, y] == arg('G')[x, y], Or(G[x, y] == 0, G[x, y] == 1))"),
    ('P1a-NPd-nonnegative', _C % "NPd[x, y] >= 0"),
    ('P1b-NPd-nonzero-only-for-walks-of-d-connections', "forall(lambda x, y: implies(And(inr(x, n0), inr(y, n0), NPd[x, y] != 0), walk(G, x, y, d)), pattern=NPd[x, y])"),
    ('P1c-every-walk-of-d-connections-is-in-NPd', "forall(lambda x, y: implies(And(inr(x, n0), inr(y, n0), walk(G, x, y, d)), NPd[x, y] != 0), pattern=walk(G, x, y, d))"),
    ('PW-NPd-is-the-d-th-power', "mateq(NPd, mpw(G, d))"),
    ('P2-found-entries-are-shortest', _CD % "implies(L[x, y] != 0, And(L[x, y] == sdist(G, x, y), sdist(G, x, y) >= 1, sdist(G, x, y) <= d))"),
    ('P3-open-entries-have-no-walk-of-at-most-d-connections', _CD % "implies(L[x, y] == 0, Or(sdist(G, x, y) == 0, sdist(G, x, y) > d))"),
    ('P4-diagonal-marked', "forall(lambda x: implies(inr(x, n0), And(L[x, x] == 1, NSP[x, x] == 1)))"),
    ('S-NSPd-marks-the-pairs-at-distance-d', _CD % "iff(NSPd[x, y] != 0, L[x, y] == d)"),
    ('N1-NSP-counts-the-walks-of-shortest-length', "forall(lambda x, y, t: implies(And(inr(x, n0), inr(y, n0), x != y, t >= 1, t <= d, L[x, y] == t), NSP[x, y] == mpw(G, t)[x, y]))"),
    ('N2-NSP-is-zero-on-open-pairs', _CD % "implies(L[x, y] == 0, NSP[x, y] == 0)"),
    ('N3-NSP-is-nonzero-on-found-pairs', _CD % "implies(L[x, y] != 0, NSP[x, y] != 0)"),
    ('FRAME-argument-untouched', "unchanged('G')"),
]
CONTRACTS['betweenness_bin#forward'] = Contract(
    MOD, 'betweenness_bin', ['G'], setup=_setup_bb, key='betweenness_bin#forward', dot_support=True, stop_at='DP = np.zeros((n, n))',
    requires=[('binary-input', _C % "Or(G[x, y] == 0, G[x, y] == 1)"), ('infinity-exceeds-any-hop-count', 'INF > n0')],
    loops={'while np.any(NSPd)': {'name': 'powers', 'inv': BB_INV}},
    ghost_after={'d = 1': "assume(lemma_walks(G, n0)); check('connections-are-walks-of-one-connection', " + (_CD % "implies(G[x, y] != 0, walk(G, x, y, 1))") + "); "
                          "check('walks-of-one-connection-are-shortest', forall(lambda x, y: implies(And(inr(x, n0), inr(y, n0), x != y, walk(G, x, y, 1)), sdist(G, x, y) == 1), pattern=walk(G, x, y, 1)))",
                 'L[np.where(I)] = 1': "assume(lemma_mpw(G, 1))",
                 'd += 1': "assume(lemma_walks(G, n0), lemma_mpw(G, d - 1))",
                 'while np.any(NSPd)': "assume(lemma_walks(G, n0, d)); "
                                       "check('exit-no-pair-at-distance-d', " + (_CD % "sdist(G, x, y) != d") + "); "
                                       "check('exit-no-open-pair-beyond-d', " + (_CD % "implies(L[x, y] == 0, sdist(G, x, y) == 0)") + ")"},
    ensures=[
        ('L-is-the-shortest-path-length', _CD % "implies(sdist(G, x, y) >= 1, L[x, y] == sdist(G, x, y))"),
        ('L-is-infinite-exactly-when-there-is-no-path', _CD % "iff(sdist(G, x, y) == 0, L[x, y] == INF)"),
        ('L-diagonal-zero', "forall(lambda x: implies(inr(x, n0), L[x, x] == 0))"),
        ('NSP-is-the-number-of-shortest-paths', "forall(lambda x, y, t: implies(And(inr(x, n0), inr(y, n0), x != y, t >= 1, sdist(G, x, y) == t), NSP[x, y] == mpw(G, t)[x, y]))"),
        ('NSP-is-one-where-there-is-no-path', _CD % "implies(sdist(G, x, y) == 0, NSP[x, y] == 1)"),
        ('argument-untouched', "unchanged('G')"),
    ])
