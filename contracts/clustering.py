"""Sidecar contracts for bct/algorithms/clustering.py (C16: only the two clauses within reach of the VC generator: rejection of
asymmetric input and number_of_components = number of reported sizes; the grouping itself is bounded only, DESIGN 5/C16)."""
import z3
from engine.pyvc.core import Contract, Opaque, alloc, A2R, INT, REAL

MOD = 'bct.algorithms.clustering'


def _setup(eng, st):
    n = z3.Int('n')
    st.pc.append(n >= 1)
    st.ghost['n0'] = n
    st.env['A'] = alloc(st, 2, z3.Const('A0', A2R), (n, n), REAL)
    st.env['no_depend'] = False


CONTRACTS = {}
# prefix of get_components up to the first statement after the symmetry check, for ARBITRARY input: execution gets past the
# check only if the matrix equals its transpose cell by cell; every other path raises BCTParamError
CONTRACTS['get_components#reject'] = Contract(
    MOD, 'get_components', ['A', 'no_depend'], setup=_setup, key='get_components#reject', stop_at='A = binarize(A, copy=True)',
    ensures=[('accepted-only-if-symmetric', "forall(lambda x, y: implies(And(inr(x, n0), inr(y, n0)), A[x, y] == A[y, x]))"), ('argument-untouched', "unchanged('A')")],
    ensures_raises=[('rejection-is-BCTParamError', "raised('BCTParamError')")])
