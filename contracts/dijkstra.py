"""Sidecar contract for distance_wei (C03): Dijkstra's algorithm with batches of equidistant nodes, non-negative connection lengths.
Only the distance matrix D is specified; the edge-count matrix B is left unconstrained (its three statements are abstracted).
wd(G, u, w) = minimum total length over walks from u to w; RCH(u, w) = w is reachable from u (w == u or sdist >= 1).
Ghost state per source u: mcur (distance of the current batch), pr (a permanent predecessor attaining each finite tentative value),
vpos (position of a batch node in V)."""
import z3
from engine.pyvc.core import Contract, Opaque, alloc, fresh, A2R, A1I, INT, REAL, BOOL

MOD = 'bct.algorithms.distance'
CONTRACTS = {}


def _setup(eng, st):
    n = z3.Int('n0c')
    st.pc.append(n >= 1)
    st.ghost['n0'] = n
    st.env['G'] = alloc(st, 2, z3.Const('G0', A2R), (n, n), REAL)


def RCH(a, b):
    return "Or(%s == %s, sdist(G, %s, %s) >= 1)" % (a, b, a, b)


_N1 = "forall(lambda w: implies(inr(w, n0), %s))"
_N2 = "forall(lambda v, w: implies(And(inr(v, n0), inr(w, n0)), %s))"
_ROWS = [
    ('ROWS-done', "forall(lambda a, b: implies(And(inr(a, n0), inr(b, n0), a < %s), And(implies(" + RCH('a', 'b') + ", D[a, b] == wd(G, a, b)), implies(Not(" + RCH('a', 'b') + "), D[a, b] == INF))))"),
    ('ROWS-todo', "forall(lambda a, b: implies(And(inr(a, n0), inr(b, n0), a %s), D[a, b] == (0 if a == b else INF)))"),
]
_TENT = ("And(forall(lambda v: implies(And(inr(v, n0), Not(S[v]), G[v, w] != 0%s), D[u, w] <= wd(G, u, v) + G[v, w])), "
         "Or(D[u, w] == INF, And(inr(pr[w], n0), Not(S[pr[w]]), G[pr[w], w] != 0, D[u, w] == wd(G, u, pr[w]) + G[pr[w], w])))")
_FRAME = "And(n == n0, inr(u, n0), unchanged('G'), mcur >= 0, mcur < INF)"
_G1 = _N2 % "G1[v, w] == (G[v, w] if S[w] else 0)"

def _rows(done, todo):
    return [(_ROWS[0][0], _ROWS[0][1] % done), (_ROWS[1][0], _ROWS[1][1] % todo)]


_ROUND = _rows('u', '> u') + [
    ('FRAME', _FRAME),
    ('G1-has-the-columns-of-permanent-nodes-cleared', _G1),
    ('PERM-nodes-hold-their-distance-below-the-batch', _N1 % ("implies(Not(S[w]), And(" + RCH('u', 'w') + ", D[u, w] == wd(G, u, w), D[u, w] < mcur))")),
    ('BATCH-is-listed-in-V', "And(forall(lambda t: implies(And(t >= 0, t < len(V)), And(inr(V[t], n0), S[V[t]], D[u, V[t]] == mcur, vpos[V[t]] == t))), "
                             + (_N1 % "implies(And(S[w], D[u, w] == mcur), And(vpos[w] >= 0, vpos[w] < len(V), V[vpos[w]] == w))") + ")"),
    ('BATCH-nodes-are-at-distance-mcur', _N1 % ("implies(And(S[w], D[u, w] == mcur), And(" + RCH('u', 'w') + ", wd(G, u, w) == mcur))")),
    ('SOURCE-is-permanent-or-in-the-first-batch', "Or(Not(S[u]), And(mcur == 0, D[u, u] == 0))"),
    ('TEMP-nodes-beyond-the-batch-hold-tentative-values', _N1 % ("implies(And(S[w], D[u, w] != mcur), And(D[u, w] > mcur, implies(" + RCH('u', 'w') + ", wd(G, u, w) >= mcur), " + (_TENT % '') + "))")),
]
_RELAX = _rows('u', '> u') + [
    ('FRAME', _FRAME),
    ('G1-has-the-columns-of-permanent-nodes-cleared', _G1),
    ('BATCH-is-V', "And(forall(lambda t: implies(And(t >= 0, t < len(V)), And(inr(V[t], n0), Not(S[V[t]]), D[u, V[t]] == mcur, vpos[V[t]] == t))), "
                   + (_N1 % "implies(And(Not(S[w]), D[u, w] == mcur), And(vpos[w] >= 0, vpos[w] < len(V), V[vpos[w]] == w))") + ")"),
    ('PERM-nodes-hold-their-distance', _N1 % ("implies(Not(S[w]), And(" + RCH('u', 'w') + ", D[u, w] == wd(G, u, w), D[u, w] <= mcur))")),
    ('SOURCE-is-permanent', "Not(S[u])"),
    ('TEMP-nodes-hold-tentative-values-over-the-relaxed-part', _N1 % ("implies(S[w], And(D[u, w] > mcur, implies(" + RCH('u', 'w') + ", wd(G, u, w) >= mcur), " + (_TENT % ', Or(D[u, v] < mcur, vpos[v] < _it)') + "))")),
]

def _dijkstra_contract(module, qualname, key, with_B, ensures, extra_before=None):
    ab = {'wi = np.argmin(td, axis=0)': {}, 'ind = W[np.where(wi == 1)]': {}, 'B[u, ind] = B[u, v] + 1': {'allow_store': {'B': True}}} if with_B else {}
    return Contract(
        module, qualname, ['G'], setup=_setup, key=key,
        requires=[('lengths-nonnegative', _N2 % "G[v, w] >= 0"),
                  ('infinity-exceeds-every-path-length', "And(INF > 0, forall(lambda v, w, x: implies(And(inr(v, n0), inr(w, n0), inr(x, n0), " + RCH('v', 'w') + "), wd(G, v, w) + G[w, x] < INF)))")],
        loops={
            'for u in range(n)': {'name': 'sources', 'inv': _rows('_it', '>= _it') + [('FRAME', "And(n == n0, unchanged('G'))")]},
            'while True': {'name': 'rounds', 'inv': _ROUND, 'declare': {'V': ('int1', '?')}, 'ghosts': ['pr', 'vpos', 'mcur']},
            'for v in V': {'name': 'relax', 'inv': _RELAX, 'ghosts': ['pr']},
        },
        abstract=ab,
        ghost_after={
            'n = len(G)': "assume(lemma_walks(G, n0), lemma_wd(G, n0))",
            'V = [u]': "mcur = 0; pr = lam1(lambda w: 0, n0); vpos = lam1(lambda w: 0, n0)",
            'D[u, W] = *': "pr = lam1(lambda w: (v if And(S[w], G1[v, w] != 0, Dold[u, w] > D[u, w]) else pr[w]), n0)",
            'V, = np.where(*': "mcur = minD; vpos = lam1(lambda w: where_index1(V, w), n0)",
        },
        ghost_before={
            'D[u, W] = *': "Dold = snapshot(D)",
            'if D[u, S].size == 0': "check('H-permanent-nodes-are-reachable', " + (_N1 % ("implies(Not(S[w]), " + RCH('u', 'w') + ")")) + "); "
                                    "check('H-permanent-nodes-are-not-farther-than-reachable-temporary-ones', " + (_N2 % ("implies(And(Not(S[v]), S[w], " + RCH('u', 'w') + "), wd(G, u, v) <= wd(G, u, w))")) + "); "
                                    "check('H-tentative-values-are-upper-bounds', " + (_N2 % "implies(And(Not(S[v]), S[w], G[v, w] != 0), And(D[u, w] <= wd(G, u, v) + G[v, w], wd(G, u, v) + G[v, w] < INF))") + "); "
                                    "check('H-finite-tentative-values-are-attained', " + (_N1 % "implies(S[w], Or(D[u, w] == INF, And(inr(pr[w], n0), Not(S[pr[w]]), G[pr[w], w] != 0, D[u, w] == wd(G, u, pr[w]) + G[pr[w], w])))") + "); "
                                    "check('H-tentative-values-never-exceed-infinity', " + (_N1 % "implies(S[w], D[u, w] <= INF)") + ")",
            'if np.isinf(minD)': "assume(lemma_dijkstra(G, u, lam1(lambda w: Not(S[w]), n0), lam1(lambda w: D[u, w], n0), pr, n0, minD, last_masked_argmin()))",
            **(extra_before or {}),
        },
        ensures=ensures, inf_division=True)


CONTRACTS['distance_wei'] = _dijkstra_contract(MOD, 'distance_wei', 'distance_wei', True, [
    ('distance-is-the-minimum-path-length', _N2 % ("implies(" + RCH('v', 'w') + ", result(0)[v, w] == wd(G, v, w))")),
    ('infinite-exactly-when-unreachable', _N2 % ("implies(Not(" + RCH('v', 'w') + "), result(0)[v, w] == INF)")),
    ('argument-untouched', "unchanged('G')")])
# ---- distance_wei: the edge-count matrix B (C03: "the edge-count outputs give the number of edges of some minimum-length path") -------------
# Same algorithm, nothing abstracted; in addition to the distance invariant: every finite entry D[u,w] is the total length of a walk from u to w with
# exactly B[u,w] connections (wwalkr).  With D = wd at exit this is a minimum-length path with B connections.
_BW = ('EDGES-finite-entries-are-walks-with-B-connections', _N1 % "implies(D[u, w] < INF, wwalkr(G, u, w, B[u, w], D[u, w]))")
_BROWS = ('EDGES-rows-done', "forall(lambda a, b: implies(And(inr(a, n0), inr(b, n0), a < %s, D[a, b] < INF), wwalkr(G, a, b, B[a, b], D[a, b])))")
_BTODO = ('EDGES-rows-todo', "forall(lambda a, b: implies(And(inr(a, n0), inr(b, n0), a %s), B[a, b] == 0))")


def _dijkstra_edges_contract():
    c = _dijkstra_contract(MOD, 'distance_wei', 'distance_wei:edges', False, [
        ('edge-count-is-the-number-of-connections-of-a-minimum-length-walk', _N2 % ("implies(" + RCH('v', 'w') + ", And(wwalkr(G, v, w, result(1)[v, w], wd(G, v, w)), result(0)[v, w] == wd(G, v, w)))")),
        ('argument-untouched', "unchanged('G')")])
    c.loops['for u in range(n)']['inv'] = c.loops['for u in range(n)']['inv'] + [(_BROWS[0], _BROWS[1] % '_it'), (_BTODO[0], _BTODO[1] % '>= _it')]
    for k in ('while True', 'for v in V'):
        c.loops[k] = dict(c.loops[k])
        c.loops[k]['inv'] = c.loops[k]['inv'] + [_BW, (_BROWS[0], _BROWS[1] % 'u'), (_BTODO[0], _BTODO[1] % '> u')]
    c.ghost_after = dict(c.ghost_after)
    c.ghost_after['n = len(G)'] = c.ghost_after['n = len(G)'].replace("assume(", "assume(lemma_wwalk(G, n0), ", 1)
    return c


CONTRACTS['distance_wei:edges'] = _dijkstra_edges_contract()

# the same algorithm nested in efficiency_wei, followed by the entrywise inverse (1/INF = 0, diagonal 0)
CONTRACTS['efficiency_wei.distance_inv_wei'] = _dijkstra_contract('bct.algorithms.efficiency', 'efficiency_wei.distance_inv_wei', 'efficiency_wei.distance_inv_wei', False, [
    ('inverse-of-the-minimum-path-length', _N2 % ("implies(And(v != w, " + RCH('v', 'w') + "), result()[v, w] == 1 / wd(G, v, w))")),
    ('zero-when-unreachable', _N2 % ("implies(Not(" + RCH('v', 'w') + "), result()[v, w] == 0)")),
    ('diagonal-zero', "forall(lambda v: implies(inr(v, n0), result()[v, v] == 0))"),
    ('argument-untouched', "unchanged('G')")])


# ---- efficiency_wei(local=False): global efficiency = mean over ordered pairs of 1 / (minimum total connection length) -------------
# Modular: invert is used through its proved contract (contracts/utils.py: entrywise 1/w on the support, 0 elsewhere, fresh matrix), the
# nested distance_inv_wei through the contract proved above.  The connection-length matrix is the ghost L; its z3 term is invl(Gw), the
# total array that the stub of invert returns as well (cells outside the n x n shape are never read and no specification depends on them).
_invl = z3.Function('invl', A2R, A2R)


def _invl_axiom(M):
    x, y = z3.Ints('x!il y!il')
    r = z3.Select(z3.Select(_invl(M), x), y)
    m = z3.Select(z3.Select(M, x), y)
    return z3.ForAll([x, y], r == z3.If(m != 0, 1 / m, z3.RealVal(0)), patterns=[r])


def _setup_ew(eng, st):
    n = z3.Int('n0c')
    st.pc.append(n >= 2)
    st.ghost['n0'] = n
    G = z3.Const('Gw0', A2R)
    st.env['Gw'] = alloc(st, 2, G, (n, n), REAL)
    st.env['local'] = False
    st.pc.append(_invl_axiom(G))
    st.ghost['L'] = alloc(st, 2, _invl(G), (n, n), REAL)


def _callee_invert(eng, st, args, kw, node):
    """contract of bct.utils.invert(W, copy=True) (proved: contracts/utils.py): a fresh matrix, 1/w where w != 0, 0 elsewhere."""
    if kw.get('copy', args[1] if len(args) > 1 else True) is not True:
        raise OutOfSubset('invert with copy != True inside a function under contract')
    o = st.heap[args[0].oid]
    M = eng.pure(o.term)
    st.pc.append(_invl_axiom(M))
    return alloc(st, 2, _invl(M), o.shape, REAL)


def _rch(M, a, b):
    return RCH(a, b).replace('(G,', '(%s,' % M)


_DIW = CONTRACTS['efficiency_wei.distance_inv_wei']
CONTRACTS['efficiency_wei'] = Contract(
    'bct.algorithms.efficiency', 'efficiency_wei', ['Gw', 'local'], setup=_setup_ew,
    requires=[('weights-nonnegative', _N2 % "Gw[v, w] >= 0"),
              ('infinity-exceeds-every-path-length', "And(INF > 0, forall(lambda v, w, x: implies(And(inr(v, n0), inr(w, n0), inr(x, n0), " + _rch('L', 'v', 'w') + "), wd(L, v, w) + L[w, x] < INF)))")],
    ensures=[('global-efficiency-is-the-mean-inverse-of-the-minimum-path-lengths',
              "And(result() == tsum(e, n0) / (n0 * n0 - n0), "
              + (_N2 % "Gl[v, w] == (1 / arg('Gw')[v, w] if arg('Gw')[v, w] != 0 else 0)") + ", "
              + (_N2 % ("implies(v != w, And(implies(" + _rch('Gl', 'v', 'w') + ", e[v, w] == 1 / wd(Gl, v, w)), implies(Not(" + _rch('Gl', 'v', 'w') + "), e[v, w] == 0)))")) + ", "
              "forall(lambda v: implies(inr(v, n0), e[v, v] == 0)))"),
             ('argument-untouched', "unchanged('Gw')")])
from engine.pyvc.run import callee_from_clauses
from engine.pyvc.core import OutOfSubset
CONTRACTS['efficiency_wei'].callees = {
    'invert': _callee_invert,
    'distance_inv_wei': callee_from_clauses('distance_inv_wei', ['G'], _DIW.requires, [c for c in _DIW.ensures if c[0] != 'argument-untouched'], [('mat', 'n0', 'n0')], ghosts={'n0': 'len(G)'}),
}

for _k in ('distance_wei', 'distance_wei:edges'):
    CONTRACTS[_k].inputs = [('G', 'G0', 'mat', 'n0c')]
CONTRACTS['efficiency_wei'].inputs = [('Gw', 'Gw0', 'mat', 'n0c')]
