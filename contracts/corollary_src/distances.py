"""Harness functions for corollaries: lemmas over the PROVED contracts of the repository functions they call.  They are never executed.
The verifier replaces every call by the callee's contract (its requires become obligations here, exactly its ensures are assumed), so what is
discharged is:  ensures(callee 1) and ensures(callee 2) and ...  =>  the stated relation between their results.  Nothing here models
repository code; a change of a repository function is judged against that function's own contract, not here."""


def distances_agree_on_binary(G):
    D, B = distance_wei(G)
    Db = distance_bin(G)
    return D, Db


def hop_distance_routines_agree(G):
    Db = distance_bin(G)
    R1, D1 = breadthdist(G)
    R2, D2 = reachdist(G, True)
    return Db, D1, D2, R1, R2


def path_from_floyd(adjacency, s, t):
    SPL, hops, Pmat = distance_wei_floyd(adjacency, None)
    return retrieve_shortest_path(s, t, hops, Pmat)


def efficiencies_agree_on_binary(G):
    Ew = efficiency_wei(G, False)
    Eb = efficiency_bin(G, False)
    return Ew, Eb


def cores_are_nested_bu(CIJ, k):
    B, kb = kcore_bu(CIJ, k + 1)
    A, ka = kcore_bu(CIJ, k)
    return A, B


def cores_are_nested_bd(CIJ, k):
    B, kb = kcore_bd(CIJ, k + 1)
    A, ka = kcore_bd(CIJ, k)
    return A, B


def score_cores_are_nested(CIJ, s1, s2):
    B, sb = score_wu(CIJ, s2)
    A, sa = score_wu(CIJ, s1)
    return A, B


def path_from_floyd_inv(adjacency, s, t):
    SPL, hops, Pmat = distance_wei_floyd(adjacency, 'inv')
    return retrieve_shortest_path(s, t, hops, Pmat)
