"""Harness functions for the renumbering corollaries (C04): lemmas over the PROVED contracts of the repository functions they call.
Never executed; every call is replaced by the callee's contract (see contracts/corollaries.py)."""


def distance_bin_renumbered(G, p):
    D1 = distance_bin(G)
    Gp = G[np.ix_(p, p)]
    D2 = distance_bin(Gp)
    return D1, D2


def distance_wei_renumbered(G, p):
    D1, B1 = distance_wei(G)
    Gp = G[np.ix_(p, p)]
    D2, B2 = distance_wei(Gp)
    return D1, D2


def distance_wei_floyd_renumbered(G, p):
    S1, h1, P1 = distance_wei_floyd(G, None)
    Gp = G[np.ix_(p, p)]
    S2, h2, P2 = distance_wei_floyd(Gp, None)
    return S1, S2


def breadthdist_renumbered(G, p):
    R1, D1 = breadthdist(G)
    Gp = G[np.ix_(p, p)]
    R2, D2 = breadthdist(Gp)
    return R1, D1, R2, D2


def reachdist_renumbered(G, p):
    R1, D1 = reachdist(G, True)
    Gp = G[np.ix_(p, p)]
    R2, D2 = reachdist(Gp, True)
    return R1, D1, R2, D2


def efficiency_bin_renumbered(G, p):
    E1 = efficiency_bin(G, False)
    Gp = G[np.ix_(p, p)]
    E2 = efficiency_bin(Gp, False)
    return E1, E2


def efficiency_wei_renumbered(G, p):
    E1 = efficiency_wei(G, False)
    Gp = G[np.ix_(p, p)]
    E2 = efficiency_wei(Gp, False)
    return E1, E2


def clustering_coef_bu_renumbered(G, p):
    C1 = clustering_coef_bu(G)
    Gp = G[np.ix_(p, p)]
    C2 = clustering_coef_bu(Gp)
    return C1, C2
