"""Harness function for the label-invariance corollary (C14): a lemma over the PROVED contract of participation_coef.  Never executed."""


def participation_coef_relabelled(W, ci, cj):
    P1 = participation_coef(W, ci, 'undirected')
    P2 = participation_coef(W, cj, 'undirected')
    return P1, P2
