"""Corollaries for C04 (renumbering equivariance of the loop-based distance measures), stated as lemmas over the proved contracts.

For a permutation p of the nodes and Gp = G[np.ix_(p, p)] (so Gp[x, y] = G[p[x], p[y]]): the matrix returned for Gp is the matrix returned for G
re-indexed the same way, D2[x, y] == D1[p[x], p[y]]; the global efficiencies are equal.  Mechanism as in contracts/corollaries.py: every call is
replaced by a stub generated from the clause lists of the callee's contract object.  Lean: sdist_renum_cells, wd_renum_cells, tot_renum_cells."""
import os
import z3
from engine.pyvc.core import Contract, alloc, A2R, A1I, INT, REAL
from contracts import corollaries as _c

SRC = os.path.join(os.path.dirname(os.path.abspath(__file__)), 'corollary_src', 'renumbering.py')
CONTRACTS = {}


def _setup(eng, st):
    n = z3.Int('n0c')
    st.pc.append(n >= 1)
    st.ghost['n0'] = n
    st.env['G'] = alloc(st, 2, z3.Const('G0', A2R), (n, n), REAL)
    st.env['p'] = alloc(st, 1, z3.Const('p0', A1I), (n,), INT)


_N2 = _c._N2
_CALLEES = dict(_c._CALLEES)
_CALLEES.update(_c._EFF_CALLEES)
_CALLEES['distance_wei_floyd'] = _c._PF_CALLEES['distance_wei_floyd']
_PERM = ('p-is-a-permutation-of-the-nodes', "isperm(p, n0)")
_LEM = "assume(lemma_renumber(G, Gp, p, n0))"


def _mk(name, first, second, requires, ensures, extra_after=None, walks=True):
    ga = {'Gp = G[np.ix_(p, p)]': _LEM + ("; assume(lemma_walks(G, n0), lemma_walks(Gp, n0))" if walks else "")}
    ga.update(extra_after or {})
    c = Contract('corollary_src.renumbering', name, ['G', 'p'], setup=_setup, requires=[_PERM] + requires, ghost_after=ga, ensures=ensures)
    c.source = SRC
    c.callees = _CALLEES
    CONTRACTS[name] = c


_EQ = lambda a, b: _N2 % ("%s[v, w] == %s[p[v], p[w]]" % (b, a))
_OFF = lambda a, b: _N2 % ("implies(v != w, %s[v, w] == %s[p[v], p[w]])" % (b, a))
_mk('distance_bin_renumbered', None, None, [('infinity-exceeds-any-hop-count', 'INF > n0')],
    [('distance_bin-of-the-renumbered-network-is-the-renumbered-matrix', _EQ('result(0)', 'result(1)'))])
_DW = _c._dj.CONTRACTS['distance_wei']
_mk('distance_wei_renumbered', None, None, list(_DW.requires),
    [('distance_wei-of-the-renumbered-network-is-the-renumbered-matrix', _EQ('result(0)', 'result(1)'))], walks=False)
_FW = _c._FW
_mk('distance_wei_floyd_renumbered', None, None, [(a, b.replace('adjacency', 'G')) for a, b in _c._req.values()],
    [('distance_wei_floyd-of-the-renumbered-network-is-the-renumbered-matrix', _EQ('result(0)', 'result(1)'))], walks=False)
_mk('breadthdist_renumbered', None, None, [('no-self-loops', "forall(lambda a: implies(inr(a, n0), G[a, a] == 0))"), ('infinity-exceeds-any-hop-count', 'INF > n0')],
    [('breadthdist-distances-are-renumbered', _OFF('result(1)', 'result(3)')), ('breadthdist-reachability-is-renumbered', _OFF('result(0)', 'result(2)'))])
_mk('reachdist_renumbered', None, None, [('infinity-exceeds-any-hop-count', 'INF > n0 + 2')],
    [('reachdist-distances-are-renumbered', _OFF('result(1)', 'result(3)')), ('reachdist-reachability-is-renumbered', _OFF('result(0)', 'result(2)'))])

# global efficiencies: the two inverse-distance matrices are renumberings of each other, so their totals are equal
_mk('efficiency_bin_renumbered', None, None, [('at-least-two-nodes', 'n0 >= 2'), ('infinity-exceeds-any-hop-count', 'INF > n0')],
    [('efficiency_bin-is-unchanged-by-renumbering', "result(0) == result(1)")],
    extra_after={'E1 = efficiency_bin(*': "e1 = efficiency_bin__e; g1 = efficiency_bin__G; check('binarised-copy-has-the-support-of-the-network', " + (_N2 % "iff(g1[v, w] != 0, G[v, w] != 0)") + "); assume(lemma_sdist_support(g1, G, n0))",
                 'E2 = efficiency_bin(*': "check('binarised-copy-has-the-support-of-the-renumbered-network', " + (_N2 % "iff(efficiency_bin__G[v, w] != 0, Gp[v, w] != 0)") + "); assume(lemma_sdist_support(efficiency_bin__G, Gp, n0)); "
                                          "check('hop-distances-are-renumbered', " + (_N2 % "sdist(efficiency_bin__G, v, w) == sdist(g1, p[v], p[w])") + "); "
                                          "check('first-result-read-at-the-renumbered-cells', " + (_N2 % "And(inr(p[v], n0), inr(p[w], n0), implies(v != w, And(p[v] != p[w], implies(sdist(g1, p[v], p[w]) >= 1, e1[p[v], p[w]] == 1 / sdist(g1, p[v], p[w])), implies(sdist(g1, p[v], p[w]) == 0, e1[p[v], p[w]] == 0))), e1[p[v], p[v]] == 0)") + "); "
                                          "check('inverse-distance-matrices-are-renumberings-of-each-other', " + (_N2 % "efficiency_bin__e[v, w] == e1[p[v], p[w]]") + "); "
                                          "assume(lemma_renumber(e1, efficiency_bin__e, p, n0))"})
_EW = _c._EW


def _setup_w(eng, st):
    from engine.pyvc.core import invl, invl_axiom
    _setup(eng, st)
    G = z3.Const('G0', A2R)
    st.pc.append(invl_axiom(G))
    st.ghost['L'] = alloc(st, 2, invl(G), (st.ghost['n0'], st.ghost['n0']), REAL)


_mk('efficiency_wei_renumbered', None, None, [('at-least-two-nodes', 'n0 >= 2')] + [(a, b.replace('Gw', 'G')) for a, b in _EW.requires],
    [('efficiency_wei-is-unchanged-by-renumbering', "result(0) == result(1)")], walks=False,
    extra_after={'E1 = efficiency_wei(*': "e1 = efficiency_wei__e; l1 = efficiency_wei__Gl",
                 'E2 = efficiency_wei(*': "check('length-matrices-are-renumberings-of-each-other', " + (_N2 % "efficiency_wei__Gl[v, w] == l1[p[v], p[w]]") + "); "
                                          "assume(lemma_renumber(l1, efficiency_wei__Gl, p, n0)); "
                                          "check('inverse-distance-matrices-are-renumberings-of-each-other', " + (_N2 % "efficiency_wei__e[v, w] == e1[p[v], p[w]]") + "); "
                                          "assume(lemma_renumber(e1, efficiency_wei__e, p, n0))"})
CONTRACTS['efficiency_wei_renumbered'].setup = _setup_w
CONTRACTS['efficiency_wei_renumbered'].ghost_before = {'E2 = efficiency_wei(*': "Lp = inverse_lengths(Gp); check('length-specifications-are-renumberings-of-each-other', " + (_N2 % "Lp[v, w] == L[p[v], p[w]]") + "); assume(lemma_renumber(L, Lp, p, n0))"}

# clustering_coef_bu (per-node vector): the coefficient of node x of the renumbered network is the coefficient of node p[x]
from contracts import clustering_c09 as _c9
from engine.pyvc.run import callee_from_clauses as _cfc2
_CB = _c9.CONTRACTS['clustering_coef_bu']
_CALLEES['clustering_coef_bu'] = _cfc2('clustering_coef_bu', ['G'], list(_CB.requires), [e for e in _CB.ensures if e[0] != 'argument-untouched'], [('vec', 'n0')], ghosts={'n0': 'len(G)'})
c = Contract('corollary_src.renumbering', 'clustering_coef_bu_renumbered', ['G', 'p'], setup=_setup, requires=[_PERM],
             ghost_after={'Gp = G[np.ix_(p, p)]': "assume(lemma_nbrsum_renumber(G, Gp, p, n0))",
                          'C2 = clustering_coef_bu(*': "check('neighbour-pair-sums-and-degrees-are-renumbered', forall(lambda x: implies(inr(x, n0), And(inr(p[x], n0), nbrsum(Gp, x, n0) == nbrsum(G, p[x], n0), rcnt(Gp, x, n0) == rcnt(G, p[x], n0))))); "
                                                       "check('first-result-read-at-the-renumbered-nodes', forall(lambda x: implies(inr(x, n0), C1[p[x]] == (nbrsum(G, p[x], n0) / (rcnt(G, p[x], n0) * rcnt(G, p[x], n0) - rcnt(G, p[x], n0)) if rcnt(G, p[x], n0) >= 2 else 0))))"},
             ensures=[('clustering_coef_bu-of-the-renumbered-network-is-the-renumbered-vector', "forall(lambda x: implies(inr(x, n0), result(1)[x] == result(0)[p[x]]))")])
c.source = SRC
c.callees = _CALLEES
c.nonlinear = 'uf'      # products and quotients of symbolic terms stay uninterpreted: both sides are built the same way, equality is by congruence
CONTRACTS['clustering_coef_bu_renumbered'] = c
