"""Sidecar contracts for kcore_bu / kcore_bd / score_wu (C15).  peel=False path; the peel outputs are bounded only.

Ghost: `alive` (boolean array, the nodes not yet peeled), updated from the program's own peel set `ff` (so a wrong comparison in
the code shows up as a maximality failure, not as a ghost/code mismatch).  S: an arbitrary node set satisfying the degree bound
inside itself (Skolem constant); MAXIMAL: S is contained in alive.  The two counting lemmas are code-independent (Lean).
"""
import z3
from engine.pyvc.core import Contract, Opaque, alloc, A2R, A1B, INT, REAL, BOOL

CORE = 'bct.algorithms.core'


def _setup(kind):
    def setup(eng, st):
        n = z3.Int('n')
        st.pc.append(n >= 1)
        st.env['CIJ'] = alloc(st, 2, z3.Const('CIJ0', A2R), (n, n), REAL)
        st.ghost['n0'] = n
        if kind == 's':
            st.env['s'] = z3.Real('s')
        else:
            st.env['k'] = z3.Int('k')
            st.env['peel'] = False
        st.ghost['alive'] = alloc(st, 1, z3.K(INT, z3.BoolVal(True)), (n,), BOOL)
        st.ghost['S'] = alloc(st, 1, z3.Const('S0', A1B), (n,), BOOL)
    return setup


def contract(name, kind):
    core = {'bu': 'CIJkcore', 'bd': 'CIJkcore', 's': 'CIJscore'}[kind]
    degvar = {'bu': 'deg', 'bd': 'deg', 's': 'str'}[kind]
    bound = 's' if kind == 's' else 'k'
    degS = {'bu': "dset(arg('CIJ'), S, v, n0)", 'bd': "dset(arg('CIJ'), S, v, n0) + rset(arg('CIJ'), S, v, n0)", 's': "wset(arg('CIJ'), S, v, n0)"}[kind]
    degcore = {'bu': "ccnt(%s, v, n0)" % core, 'bd': "ccnt(%s, v, n0) + rcnt(%s, v, n0)" % (core, core), 's': "csum(%s, v, n0)" % core}[kind]
    degres = degcore.replace(core, 'result(0)')
    first = {'bu': 'deg = degrees_und(CIJkcore)', 'bd': 'id, od, deg = degrees_dir(CIJkcore)', 's': 'str = strengths_und(CIJscore)'}[kind]
    req = [('bound-positive', '%s >= 1' % bound if kind != 's' else 's > 0'),
           ('S-meets-the-bound-inside-itself', "forall(lambda v: implies(And(inr(v, n0), S[v]), %s >= %s))" % (degS, bound))]
    if kind == 's':
        req.append(('weights-nonnegative', "forall(lambda x, y: implies(And(inr(x, n0), inr(y, n0)), CIJ[x, y] >= 0))"))
    inv = [
        ('SHAPE-input-restricted-to-alive', "forall(lambda x, y: implies(And(inr(x, n0), inr(y, n0)), %s[x, y] == (arg('CIJ')[x, y] if (alive[x] and alive[y]) else 0)))" % core),
        ('MAXIMAL-every-set-meeting-the-bound-survives', "forall(lambda v: implies(And(inr(v, n0), S[v]), alive[v]))"),
        ('FRAME-argument-untouched', "unchanged('CIJ')"),
    ]
    lemmas = "assume(lemma_masked_degree(%s, alive, arg('CIJ'), n0), lemma_degree_monotone(arg('CIJ'), S, alive, n0))" % core
    ens = [
        ('result-is-input-restricted-to-a-node-set', "forall(lambda x, y: implies(And(inr(x, n0), inr(y, n0)), result(0)[x, y] == (arg('CIJ')[x, y] if (alive[x] and alive[y]) else 0)))"),
        ('every-remaining-connected-node-meets-the-bound', "forall(lambda v: implies(And(inr(v, n0), %s > 0), %s >= %s))" % (degres, degres, bound)),
        ('maximal-any-set-meeting-the-bound-is-inside', "forall(lambda v: implies(And(inr(v, n0), S[v]), And(alive[v], %s >= %s)))" % (degres, bound)),
        ('size-is-number-of-connected-nodes', "result(1) == cntb(lam1(lambda v: %s > 0, n0), n0)" % degres),
        ('argument-untouched', "unchanged('CIJ')"),
    ]
    peelstmt = '%s[:, ff] = 0' % core
    return Contract(CORE, name, ['CIJ', bound], setup=_setup(kind), requires=req, ensures=ens,
                    loops={'while True': {'name': 'peel', 'inv': inv, 'ghosts': ['alive']}},
                    ghost_after={first: lemmas, peelstmt: "alive = lam1(lambda q: alive[q] and not member(ff, q), n0)"})


CONTRACTS = {'kcore_bu': contract('kcore_bu', 'bu'), 'kcore_bd': contract('kcore_bd', 'bd'), 'score_wu': contract('score_wu', 's')}

for _k, _b in (('kcore_bu', 'k'), ('kcore_bd', 'k'), ('score_wu', 's')):
    CONTRACTS[_k].inputs = [('CIJ', 'CIJ0', 'mat', 'n'), (_b, _b, 'int' if _b == 'k' else 'real')]


# ---- kcoreness_centrality_bu / _bd: modular, against the (proved) contracts of kcore_bu / kcore_bd taken as abstract functions ---------
# KC(CIJ, k) is the matrix and KN(CIJ, k) the size that the callee returns for bound k (a deterministic function of its arguments);
# node x is in the k-core iff it keeps a connection in KC(CIJ, k).  The loop runs k = 0 .. N-1 in increasing order and overwrites,
# so the final coreness of x is the LARGEST k < N whose core contains x (0 if none) -- no nestedness argument is needed.
# (for kcoreness_centrality_bd cores with k >= N exist: that truncation is the known finding listed under C15.)
from engine.pyvc.core import fresh, A1I, TupleV, to_z3, ccnt, cnt1, Ref  # noqa: E402
from engine.pyvc import npspec  # noqa: E402

KC = z3.Function('KC', A2R, REAL, A2R)      # the bound is passed as a real: coreness values are stored in a float array
KN = z3.Function('KN', A2R, REAL, INT)


def _callee_kcore(eng, st, args, kw, node):
    M = eng.pure(st.heap[args[0].oid].term)
    k = to_z3(args[1], REAL)
    n = st.heap[args[0].oid].shape[0]
    return TupleV((alloc(st, 2, KC(M, k), (n, n), REAL), KN(M, k)))


def _setup_kc(eng, st):
    n = z3.Int('n')
    st.pc.append(n >= 1)
    st.env['CIJ'] = alloc(st, 2, z3.Const('CIJ0', A2R), (n, n), REAL)
    st.ghost['n0'] = n


def _member(kind):
    # membership of node x in the k-core is read off the matrix the core routine returned, the way the code does:
    # the node has a non-zero column sum (bu) / non-zero column-plus-row sum (bd) in that 0/1 matrix
    return "(csum(KCf(CIJ, %s), x, n0) > 0)" if kind == 'bu' else "(csum(KCf(CIJ, %s), x, n0) + rsum(KCf(CIJ, %s), x, n0) > 0)"


def kcoreness_contract(name, kind):
    mem = (lambda kexpr: _member(kind) % ((kexpr,) if kind == 'bu' else (kexpr, kexpr)))
    inv = [
        ('CORENESS-range', "forall(lambda x: implies(inr(x, n0), And(coreness[x] >= 0, Or(coreness[x] == 0, coreness[x] < _it))))"),
        ('CORENESS-node-is-in-its-core', "forall(lambda x: implies(And(inr(x, n0), coreness[x] >= 1), %s), pattern=coreness[x])" % mem('coreness[x]')),
        ('CORENESS-no-larger-core-so-far', "forall(lambda x, kk: implies(And(inr(x, n0), kk >= 1, kk < _it, %s), coreness[x] >= kk))" % mem('kk')),
        ('SIZES-as-reported-by-the-core-routine', "forall(lambda kk: implies(And(kk >= 0, kk < _it), kn[kk] == KNf(CIJ, kk)))"),
        ('FRAME', "And(N == n0, unchanged('CIJ'))"),
    ]
    ens = [
        ('coreness-in-range', "forall(lambda x: implies(inr(x, n0), And(result(0)[x] >= 0, result(0)[x] < n0)))"),
        ('node-is-in-the-core-of-its-coreness', "forall(lambda x: implies(And(inr(x, n0), result(0)[x] >= 1), %s))" % mem('result(0)[x]')),
        ('no-core-with-larger-k-below-N-contains-the-node', "forall(lambda x, kk: implies(And(inr(x, n0), kk >= 1, kk < n0, %s), result(0)[x] >= kk))" % mem('kk')),
        ('sizes-are-the-core-sizes', "forall(lambda kk: implies(And(kk >= 0, kk < n0), result(1)[kk] == KNf(CIJ, kk)))"),
        ('argument-untouched', "unchanged('CIJ')"),
    ]
    c = Contract('bct.algorithms.centrality', name, ['CIJ'], setup=_setup_kc, ensures=ens, loops={'for k in range(N)': {'name': 'levels', 'inv': inv}})
    c.callees = {'kcore_bu': _callee_kcore, 'kcore_bd': _callee_kcore}
    return c


CONTRACTS['kcoreness_centrality_bu'] = kcoreness_contract('kcoreness_centrality_bu', 'bu')
CONTRACTS['kcoreness_centrality_bd'] = kcoreness_contract('kcoreness_centrality_bd', 'bd')
