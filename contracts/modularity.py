"""Sidecar contracts for bct/algorithms/modularity.py (C02: returned q is the modularity of the returned labels, labels are 1..k;
C07: the optimiser never returns a partition worse than its start).

Spec functions (engine/pyvc/core.py): modsum / modsumT (node-to-module sums of outgoing / incoming weight), degsum / degsumT
(module out- / in-degree), agg (module-by-module aggregate), tsum, Qmod (modularity; defining equation and the lemmas below are
code-independent mathematics, Lean VerifLemmas).  KInv: the bookkeeping arrays equal these sums for the current labels.
"""
import z3
from engine.pyvc.core import Contract, Opaque, alloc, fresh, A2R, A1I, INT, REAL, BOOL

MOD = 'bct.algorithms.modularity'
RNG = "forall(lambda x, m: implies(And(inr(x, n), inr(m, n)), %s))"


def _setup(sym=True, has_ci=True):
    def setup(eng, st):
        n = z3.Int('n')
        st.pc.append(n >= 1)
        st.env['W'] = alloc(st, 2, z3.Const('W0', A2R), (n, n), REAL)
        st.ghost['n0'] = n
        st.env['ci'] = alloc(st, 1, z3.Const('ci_in', A1I), (n,), INT) if has_ci else None
        st.env['gamma'] = z3.Real('gamma')
        st.env['seed'] = Opaque('seed')
    return setup


REQ_UND = [('undirected', "forall(lambda x, y: implies(And(inr(x, n0), inr(y, n0)), W[x, y] == W[y, x]))"),
           ('positive-total-weight', "tsum(W, n0) > 0")]

KINV_UND = [
    ('K1-node-to-module-sums', RNG % "knm[x, m] == modsum(W, ci, x, m, n)"),
    ('K2-node-degrees', "forall(lambda x: implies(inr(x, n), k[x] == rsum(W, x, n)))"),
    ('K3-module-degrees', "forall(lambda m: implies(inr(m, n), km[m] == degsum(W, ci, m, n)))"),
    ('LAB-labels-in-range', "forall(lambda y: implies(inr(y, n), And(ci[y] >= 1, ci[y] <= n)))"),
    ('QMONO-never-below-start', "Qmod(W, ci, gamma, n) >= Qmod(W, ci0, gamma, n)"),
    ('S-total', "And(s == tsum(W, n), n == n0)"),
    ('FRAME-arguments-untouched', "And(unchanged('W'), unchanged('ci'))"),
]
LEMMAS_UND = "assume(lemma_modularity(W, ci, n))"

FINAL_OUTER = [('AGG-done-rows', "forall(lambda a, b: implies(And(inr(a, m), inr(b, m), Or(a < _it, b < _it)), w[a, b] == agg(W, ci, a, b, n)))")]
FINAL_INNER = [('AGG-done-rows', "forall(lambda a, b: implies(And(inr(a, m), inr(b, m), Or(a < u, b < u)), w[a, b] == agg(W, ci, a, b, n)))"),
               ('AGG-current-row', "forall(lambda b: implies(And(inr(b, m), b < _it), And(w[u, b] == agg(W, ci, u, b, n), w[b, u] == agg(W, ci, b, u, n))))"),
               ('u-in-range', 'inr(u, m)')]

CONTRACTS = {}
CONTRACTS['modularity_finetune_und'] = Contract(
    MOD, 'modularity_finetune_und', ['W', 'ci', 'gamma', 'seed'], setup=_setup(), requires=REQ_UND, nonlinear='uf',
    loops={
        'for m in range(np.max(ci))': {'name': 'init', 'inv': [
            ('INIT-columns-done', "forall(lambda x, mm: implies(And(inr(x, n), mm >= 0, mm < _it), knm[x, mm] == modsum(W, ci, x, mm, n)))"),
            ('INIT-columns-todo', "forall(lambda x, mm: implies(And(inr(x, n), mm >= _it, mm < n), knm[x, mm] == 0))")]},
        'while flag': {'name': 'sweeps', 'inv': KINV_UND},
        'for u in rng.permutation(n)': {'name': 'moves', 'inv': KINV_UND},
        'for u in range(m)': {'name': 'agg-rows', 'inv': FINAL_OUTER},
        'for v in range(m)': {'name': 'agg-cells', 'inv': FINAL_INNER},
    },
    ghost_after={
        "ci += 1#0": "ci0 = snapshot(ci); assume(lemma_relabel(W, ci, arg('ci'), gamma, n))",
        "flag = True#0": "assume(lemma_modularity(W, ci, n), lemma_knm_sums(knm, W, ci, n, 'out'))",
        "ma = ci[u] - 1": LEMMAS_UND,
        "mb = np.argmax(dq)": "check('argmax-attains-max', dq[mb] == max_dq); check('move-changes-module', mb != ma); "
                              "check('gain-is-the-lemma-expression', dq[mb] == (modsum(W, ci, u, mb, n) - modsum(W, ci, u, ma, n) + W[u, u]) - gamma * rsum(W, u, n) * (degsum(W, ci, mb, n) - degsum(W, ci, ma, n) + rsum(W, u, n)) / s)",
        "ci += 1#1": "assume(lemma_relabel(W, ci, ci_before_final, gamma, n))",
        "w = np.zeros((m, m))": "assume(lemma_modularity(W, ci, n))",
    },
    ghost_before={"_, ci = np.unique(ci, return_inverse=True)#1": "ci_before_final = snapshot(ci)",
                  # anchored at the return statement so that an edit of the formula of q is judged against the lemma, not unbound
                  "return (ci, q)": "assume(lemma_q_from_aggregate(w, lam2(lambda a, b: w[a, b] / s, m), W, ci, gamma, s, m, n))"},
    ensures=[
        ('C07-not-worse-than-start', "Qmod(W, result(0), gamma, n0) >= Qmod(W, arg('ci'), gamma, n0)"),
        ('C02-q-is-modularity-of-returned-labels', "result(1) == Qmod(W, result(0), gamma, n0)"),
        ('C02-labels-in-1..k', "forall(lambda y: implies(inr(y, n0), And(result(0)[y] >= 1, result(0)[y] <= m)))"),
        ('C02-every-label-1..k-used', "forall(lambda l: implies(And(l >= 1, l <= m), And(inr(unique_witness(l - 1), n0), result(0)[unique_witness(l - 1)] == l)))"),
        ('arguments-untouched', "And(unchanged('W'), unchanged('ci'))"),
    ])


# ---- modularity_finetune_dir ----------------------------------------------------------------------------------------------------
REQ_DIR = [('positive-total-weight', "tsum(W, n0) > 0")]
KINV_DIR = [
    ('K1o-node-to-module-out-sums', RNG % "knm_o[x, m] == modsum(W, ci, x, m, n)"),
    ('K1i-node-to-module-in-sums', RNG % "knm_i[x, m] == modsumT(W, ci, x, m, n)"),
    ('K2-node-degrees', "forall(lambda x: implies(inr(x, n), And(k_o[x] == rsum(W, x, n), k_i[x] == csum(W, x, n))))"),
    ('K3-module-degrees', "forall(lambda m: implies(inr(m, n), And(km_o[m] == degsum(W, ci, m, n), km_i[m] == degsumT(W, ci, m, n))))"),
    ('LAB-labels-in-range', "forall(lambda y: implies(inr(y, n), And(ci[y] >= 1, ci[y] <= n)))"),
    ('QMONO-never-below-start', "Qmod(W, ci, gamma, n) >= Qmod(W, ci0, gamma, n)"),
    ('S-total', "And(s == tsum(W, n), n == n0)"),
    ('FRAME-arguments-untouched', "And(unchanged('W'), unchanged('ci'))"),
]
CONTRACTS['modularity_finetune_dir'] = Contract(
    MOD, 'modularity_finetune_dir', ['W', 'ci', 'gamma', 'seed'], setup=_setup(), requires=REQ_DIR, nonlinear='uf',
    loops={
        'for m in range(np.max(ci))': {'name': 'init', 'inv': [
            ('INIT-columns-done', "forall(lambda x, mm: implies(And(inr(x, n), mm >= 0, mm < _it), And(knm_o[x, mm] == modsum(W, ci, x, mm, n), knm_i[x, mm] == modsumT(W, ci, x, mm, n))))"),
            ('INIT-columns-todo', "forall(lambda x, mm: implies(And(inr(x, n), mm >= _it, mm < n), And(knm_o[x, mm] == 0, knm_i[x, mm] == 0)))")]},
        'while flag': {'name': 'sweeps', 'inv': KINV_DIR},
        'for u in rng.permutation(n)': {'name': 'moves', 'inv': KINV_DIR},
        'for u in range(m)': {'name': 'agg-rows', 'inv': [('AGG-done-rows', "forall(lambda a, b: implies(And(inr(a, m), inr(b, m), a < _it), w[a, b] == agg(W, ci, a, b, n)))")]},
        'for v in range(m)': {'name': 'agg-cells', 'inv': [
            ('AGG-done-rows', "forall(lambda a, b: implies(And(inr(a, m), inr(b, m), a < u), w[a, b] == agg(W, ci, a, b, n)))"),
            ('AGG-current-row', "forall(lambda b: implies(And(inr(b, m), b < _it), w[u, b] == agg(W, ci, u, b, n)))"), ('u-in-range', 'inr(u, m)')]},
    },
    ghost_after={
        "ci += 1#0": "ci0 = snapshot(ci); assume(lemma_relabel(W, ci, arg('ci'), gamma, n))",
        "flag = True#0": "assume(lemma_modularity(W, ci, n), lemma_knm_sums(knm_o, W, ci, n, 'out'), lemma_knm_sums(knm_i, W, ci, n, 'in'))",
        "ma = ci[u] - 1": "assume(lemma_modularity(W, ci, n))",
        "mb = np.argmax(dq)": "check('argmax-attains-max', dq[mb] == max_dq); check('move-changes-module', mb != ma); "
                              "check('gain-is-the-lemma-expression', 2 * dq[mb] == "
                              "((modsum(W, ci, u, mb, n) - modsum(W, ci, u, ma, n) + W[u, u]) - gamma * rsum(W, u, n) * (degsumT(W, ci, mb, n) - degsumT(W, ci, ma, n) + csum(W, u, n)) / s) + "
                              "((modsumT(W, ci, u, mb, n) - modsumT(W, ci, u, ma, n) + W[u, u]) - gamma * csum(W, u, n) * (degsum(W, ci, mb, n) - degsum(W, ci, ma, n) + rsum(W, u, n)) / s))",
        "ci += 1#1": "assume(lemma_relabel(W, ci, ci_before_final, gamma, n))",
    },
    ghost_before={"_, ci = np.unique(ci, return_inverse=True)#1": "ci_before_final = snapshot(ci)",
                  "return (ci, q)": "assume(lemma_q_from_aggregate(w, lam2(lambda a, b: w[a, b] / s, m), W, ci, gamma, s, m, n))"},
    ensures=CONTRACTS['modularity_finetune_und'].ensures)


# ---- one hierarchy level of the Louvain routines (fragment contracts) ---------------------------------------------------------------
# The fragment is the body of `while True:` from the initialisation of the bookkeeping to the end of the node-moving sweeps,
# for an ARBITRARY current working matrix W (the aggregated network of the level) and the fixed total s.
# ASSUMED at fragment entry (not proved here; preserved by aggregation: Lean agg lemmas): W is n x n, s == tsum(W) > 0, symmetric (und).
def _setup_level(eng, st):
    n = z3.Int('n')
    st.pc.append(n >= 1)
    st.env['n'] = n
    st.ghost['n0'] = n
    st.env['W'] = alloc(st, 2, z3.Const('Wlevel', A2R), (n, n), REAL)
    st.env['s'] = z3.Real('s')
    st.env['gamma'] = z3.Real('gamma')
    st.env['rng'] = Opaque('rng')
    st.env['h'] = z3.Int('h')


KINV_LOUV_UND = [
    ('K1-node-to-module-sums', RNG % "Knm[x, m] == modsum(W, mlab, x, m, n)".replace('mlab', 'm_')),
]


def _louv_inv(knm, kvec, km, lab):
    return [
        ('K1-node-to-module-sums', "forall(lambda x, mm: implies(And(inr(x, n), inr(mm, n)), %s[x, mm] == modsum(W, %s, x, mm, n)))" % (knm, lab)),
        ('K2-node-degrees', "forall(lambda x: implies(inr(x, n), %s[x] == rsum(W, x, n)))" % kvec),
        ('K3-module-degrees', "forall(lambda mm: implies(inr(mm, n), %s[mm] == degsum(W, %s, mm, n)))" % (km, lab)),
        ('LAB-labels-in-range', "forall(lambda y: implies(inr(y, n), And(%s[y] >= 1, %s[y] <= n)))" % (lab, lab)),
        ('QMONO-never-below-level-start', "Qmod(W, %s, gamma, n) >= Qmod(W, m0, gamma, n)" % lab),
        ('FRAME-level-matrix-untouched', "And(s == tsum(W, n), n == n0)"),
    ]


CONTRACTS['modularity_louvain_und#level'] = Contract(
    MOD, 'modularity_louvain_und', ['W', 'gamma', 'hierarchy', 'seed'], setup=_setup_level, key='modularity_louvain_und#level', nonlinear='uf',
    fragment=('k = np.sum(W, axis=0)', 'while flag'),
    requires=[('level-matrix-symmetric', "forall(lambda x, y: implies(And(inr(x, n0), inr(y, n0)), W[x, y] == W[y, x]))"), ('total-weight', "And(s == tsum(W, n0), s > 0)")],
    loops={'while flag': {'name': 'sweeps', 'inv': _louv_inv('Knm', 'k', 'Km', 'm')}, 'for i in rng.permutation(n)': {'name': 'moves', 'inv': _louv_inv('Knm', 'k', 'Km', 'm')}},
    ghost_after={'m = np.arange(n) + 1': "m0 = snapshot(m); assume(lemma_modularity(W, m, n))",
                 'ma = m[i] - 1': "assume(lemma_modularity(W, m, n))",
                 'j = np.argmax(dQ)': "check('argmax-attains-max', dQ[j] == max_dq); check('move-changes-module', j != ma); "
                                      "check('gain-is-the-lemma-expression', dQ[j] == (modsum(W, m, i, j, n) - modsum(W, m, i, ma, n) + W[i, i]) - gamma * rsum(W, i, n) * (degsum(W, m, j, n) - degsum(W, m, ma, n) + rsum(W, i, n)) / s)"},
    ensures=[('level-never-lowers-Q', "Qmod(W, m, gamma, n0) >= Qmod(W, m0, gamma, n0)"),
             ('bookkeeping-consistent-at-level-end', "forall(lambda x, mm: implies(And(inr(x, n0), inr(mm, n0)), Knm[x, mm] == modsum(W, m, x, mm, n0)))")])


def _louv_inv_dir():
    return [
        ('K1o-node-to-module-out-sums', "forall(lambda x, mm: implies(And(inr(x, n), inr(mm, n)), knm_o[x, mm] == modsum(W, m, x, mm, n)))"),
        ('K1i-node-to-module-in-sums', "forall(lambda x, mm: implies(And(inr(x, n), inr(mm, n)), knm_i[x, mm] == modsumT(W, m, x, mm, n)))"),
        ('K2-node-degrees', "forall(lambda x: implies(inr(x, n), And(k_o[x] == rsum(W, x, n), k_i[x] == csum(W, x, n))))"),
        ('K3-module-degrees', "forall(lambda mm: implies(inr(mm, n), And(km_o[mm] == degsum(W, m, mm, n), km_i[mm] == degsumT(W, m, mm, n))))"),
        ('LAB-labels-in-range', "forall(lambda y: implies(inr(y, n), And(m[y] >= 1, m[y] <= n)))"),
        ('QMONO-never-below-level-start', "Qmod(W, m, gamma, n) >= Qmod(W, m0, gamma, n)"),
        ('FRAME-level-matrix-untouched', "And(s == tsum(W, n), n == n0)"),
    ]


CONTRACTS['modularity_louvain_dir#level'] = Contract(
    MOD, 'modularity_louvain_dir', ['W', 'gamma', 'hierarchy', 'seed'], setup=_setup_level, key='modularity_louvain_dir#level', nonlinear='uf',
    fragment=('k_o = np.sum(W, axis=1)', 'while flag'),
    requires=[('total-weight', "And(s == tsum(W, n0), s > 0)")],
    loops={'while flag': {'name': 'sweeps', 'inv': _louv_inv_dir()}, 'for u in rng.permutation(n)': {'name': 'moves', 'inv': _louv_inv_dir()}},
    ghost_after={'m = np.arange(n) + 1': "m0 = snapshot(m); assume(lemma_modularity(W, m, n))",
                 'ma = m[u] - 1': "assume(lemma_modularity(W, m, n))",
                 'mb = np.argmax(dq)': "check('argmax-attains-max', dq[mb] == max_dq); check('move-changes-module', mb != ma)"},
    ensures=[('level-never-lowers-Q', "Qmod(W, m, gamma, n0) >= Qmod(W, m0, gamma, n0)")],
    notes='KNOWN FINDING on the pinned tree: knm_i is initialised untransposed and the updates are exchanged; K1i / QMONO do not discharge for asymmetric W.')


def _setup_cl(eng, st):
    n = z3.Int('n')
    st.pc.append(n >= 1)
    st.env['n'] = n
    st.ghost['n0'] = n
    st.env['B'] = alloc(st, 2, z3.Const('Bkernel', A2R), (n, n), REAL)
    st.env['Hnm'] = alloc(st, 2, z3.Const('Hnm_in', A2R), (n, n), REAL)
    st.env['H'] = alloc(st, 1, z3.Const('H_in', z3.ArraySort(INT, REAL)), (n,), REAL)
    st.env['Hm'] = alloc(st, 1, z3.Const('Hm_in', z3.ArraySort(INT, REAL)), (n,), REAL)
    st.env['Mb'] = alloc(st, 1, z3.Const('Mb_in', A1I), (n,), INT)
    st.env['rng'] = Opaque('rng')


CL_INV = [
    ('K1-node-to-module-sums', "forall(lambda x, mm: implies(And(inr(x, n), inr(mm, n)), Hnm[x, mm] == modsum(B, Mb, x, mm, n)))"),
    ('LAB-labels-in-range', "forall(lambda y: implies(inr(y, n), And(Mb[y] >= 1, Mb[y] <= n)))"),
    ('QMONO-objective-never-below-level-start', "QrawB(B, Mb, n) >= QrawB(B, Mb0, n)"),
    ('FRAME', "n == n0"),
]
CONTRACTS['community_louvain#level'] = Contract(
    MOD, 'community_louvain', ['W', 'gamma', 'ci', 'B', 'seed'], setup=_setup_cl, key='community_louvain#level',
    fragment=('it = 0', 'while flag'),
    requires=[('objective-matrix-symmetric', "forall(lambda x, y: implies(And(inr(x, n0), inr(y, n0)), B[x, y] == B[y, x]))"),
              ('bookkeeping-consistent-at-level-start', "forall(lambda x, mm: implies(And(inr(x, n0), inr(mm, n0)), Hnm[x, mm] == modsum(B, Mb, x, mm, n0)))"),
              ('labels-in-range', "forall(lambda y: implies(inr(y, n0), And(Mb[y] >= 1, Mb[y] <= n0)))")],
    loops={'while flag': {'name': 'sweeps', 'inv': CL_INV}, 'for u in rng.permutation(n)': {'name': 'moves', 'inv': CL_INV}},
    ghost_after={'it = 0': "Mb0 = snapshot(Mb)", 'ma = Mb[u] - 1': "assume(lemma_modularity(B, Mb, n))",
                 'mb = np.argmax(dQ)': "check('argmax-attains-max', dQ[mb] == max_dq); check('move-changes-module', mb != ma)"},
    ensures=[('level-never-lowers-the-objective', "QrawB(B, Mb, n0) >= QrawB(B, Mb0, n0)"),
             ('bookkeeping-consistent-at-level-end', "forall(lambda x, mm: implies(And(inr(x, n0), inr(mm, n0)), Hnm[x, mm] == modsum(B, Mb, x, mm, n0)))")])


# ---- modularity_finetune_und_sign (C07: never below the start in the signed quality the routine optimises) ------------------------------
QTYPES = ('smp', 'gja', 'sta', 'pos', 'neg')


def _setup_sign(eng, st):
    n = z3.Int('n')
    st.pc.append(n >= 1)
    st.env['W'] = alloc(st, 2, z3.Const('W0in', A2R), (n, n), REAL)
    st.ghost['n0'] = n
    st.env['ci'] = alloc(st, 1, z3.Const('ci_in', A1I), (n,), INT)
    st.env['gamma'] = z3.Real('gamma')
    st.env['seed'] = Opaque('seed')
    bs = {q: z3.Bool('qtype_is_' + q) for q in QTYPES}
    st.pc.append(z3.AtMost(*bs.values(), 1))
    st.env['qtype'] = Opaque('strsym', eq=lambda lit: bs.get(lit, z3.BoolVal(False)))


QS = "umul(d0, Qrawg(W0, %s, gamma, s0, n)) - umul(d1, Qrawg(W1, %s, gamma, s1, n))"
KINV_SIGN = [
    ('K1-node-to-module-sums', "forall(lambda x, mm: implies(And(inr(x, n), inr(mm, n)), And(Knm0[x, mm] == modsum(W0, ci, x, mm, n), Knm1[x, mm] == modsum(W1, ci, x, mm, n))))"),
    ('K2-node-degrees', "forall(lambda x: implies(inr(x, n), And(Kn0[x] == rsum(W0, x, n), Kn1[x] == rsum(W1, x, n))))"),
    ('K3-module-degrees', "forall(lambda mm: implies(inr(mm, n), And(Km0[mm] == degsum(W0, ci, mm, n), Km1[mm] == degsum(W1, ci, mm, n))))"),
    ('LAB-labels-in-range', "forall(lambda y: implies(inr(y, n), And(ci[y] >= 1, ci[y] <= n)))"),
    ('QMONO-signed-quality-never-below-start', (QS % ('ci', 'ci')) + " >= " + (QS % ('ci0', 'ci0'))),
    ('FRAME-arguments-untouched', "And(unchanged('W'), unchanged('ci'), n == n0)"),
]
SIGN_LEMMAS = "assume(lemma_modularity(W0, ci, n), lemma_modularity(W1, ci, n))"
CONTRACTS['modularity_finetune_und_sign'] = Contract(
    MOD, 'modularity_finetune_und_sign', ['W', 'qtype', 'gamma', 'ci', 'seed'], setup=_setup_sign, nonlinear='uf',
    requires=[('undirected', "forall(lambda x, y: implies(And(inr(x, n0), inr(y, n0)), W[x, y] == W[y, x]))")],
    loops={
        'for m in range(int(np.max(ci)))': {'name': 'init', 'inv': [
            ('INIT-columns-done', "forall(lambda x, mm: implies(And(inr(x, n), mm >= 0, mm < _it), And(Knm0[x, mm] == modsum(W0, ci, x, mm, n), Knm1[x, mm] == modsum(W1, ci, x, mm, n))))"),
            ('INIT-columns-todo', "forall(lambda x, mm: implies(And(inr(x, n), mm >= _it, mm < n), And(Knm0[x, mm] == 0, Knm1[x, mm] == 0)))")]},
        'while flag': {'name': 'sweeps', 'inv': KINV_SIGN},
        'for u in rng.permutation(n)': {'name': 'moves', 'inv': KINV_SIGN},
    },
    ghost_after={
        "ci += 1#0": "ci0 = snapshot(ci)",
        "flag = True#0": "assume(lemma_modularity(W0, ci, n), lemma_modularity(W1, ci, n), lemma_knm_sums(Knm0, W0, ci, n, 'out'), lemma_knm_sums(Knm1, W1, ci, n, 'out'))",
        "ma = ci[u] - 1": SIGN_LEMMAS,
        "mb = np.argmax(dq)": "check('argmax-attains-max', dq[mb] == max_dq)",
        "ci[u] = mb + 1": "check('move-changes-module', mb != ma); "
                          "assume(lemma_umul_linear(d0, Qrawg(W0, ci, gamma, s0, n), Qrawg(W0, ci_pre, gamma, s0, n)), lemma_umul_linear(d1, Qrawg(W1, ci, gamma, s1, n), Qrawg(W1, ci_pre, gamma, s1, n)), "
                          "lemma_umul_linear(d0, dq0[mb], 0), lemma_umul_linear(d1, dq1[mb], 0))",
        "ci += 1#1": "assume(lemma_relabel_g(W0, ci, ci_before_final, gamma, s0, n), lemma_relabel_g(W1, ci, ci_before_final, gamma, s1, n))",
        "s1 = np.sum(W1)": "t0 = s0; t1 = s1",
    },
    ghost_before={"ci[u] = mb + 1": "ci_pre = snapshot(ci)", "_, ci = np.unique(ci, return_inverse=True)#1": "ci_before_final = snapshot(ci)",
                  # anchored at the return so that an edit of the formula of q is judged against the definition of the signed quality
                  "return (ci, q)": "assume(lemma_Qrawg_def(q0, W0, ci, Kn0, gamma, s0, n), lemma_Qrawg_def(q1, W1, ci, Kn1, gamma, s1, n))"},
    ensures=[('C02-q-is-the-signed-quality-of-the-returned-labels', "result(1) == " + (QS % ('result(0)', 'result(0)')).replace(', n)', ', n0)')),
             ('C02-scaling-of-the-requested-type',
              "And(t0 == tsum(W0, n0), t1 == tsum(W1, n0), s0 == (t0 if t0 != 0 else 1), s1 == (t1 if t1 != 0 else 1), implies(t0 == 0, d0 == 0), implies(t1 == 0, d1 == 0), "
              "implies(And(t0 != 0, Or(qtype == 'smp', qtype == 'sta', qtype == 'pos')), d0 == 1 / t0), implies(And(t0 != 0, qtype == 'gja'), d0 == 1 / (t0 + t1)), implies(qtype == 'neg', d0 == 0), "
              "implies(And(t1 != 0, Or(qtype == 'smp', qtype == 'neg')), d1 == 1 / t1), implies(And(t1 != 0, Or(qtype == 'gja', qtype == 'sta')), d1 == 1 / (t0 + t1)), implies(qtype == 'pos', d1 == 0))"),
             ('C07-signed-quality-not-worse-than-canonicalised-start', (QS % ('result(0)', 'result(0)')).replace(', n)', ', n0)') + " >= " + (QS % ('ci0', 'ci0')).replace(', n)', ', n0)')),
             ('C02-labels-in-1..k', "forall(lambda y: implies(inr(y, n0), And(result(0)[y] >= 1, result(0)[y] <= n0)))"),
             ('arguments-untouched', "And(unchanged('W'), unchanged('ci'))")])


# ---- one level of modularity_louvain_und_sign (fragment) ---------------------------------------------------------------------------
def _setup_level_sign(eng, st):
    nh = z3.Int('nh')
    st.pc.append(nh >= 1)
    st.env['nh'] = nh
    st.ghost['n0'] = nh
    st.env['W0'] = alloc(st, 2, z3.Const('W0level', A2R), (nh, nh), REAL)
    st.env['W1'] = alloc(st, 2, z3.Const('W1level', A2R), (nh, nh), REAL)
    for nm in ('s0', 's1', 'd0', 'd1', 'gamma'):
        st.env[nm] = z3.Real(nm)
    st.env['rng'] = Opaque('rng')
    st.env['h'] = z3.Int('h')


QSL = "umul(d0, Qrawg(W0, %s, gamma, s0, nh)) - umul(d1, Qrawg(W1, %s, gamma, s1, nh))"
LSIGN_INV = [
    ('K1-node-to-module-sums', "forall(lambda x, mm: implies(And(inr(x, nh), inr(mm, nh)), And(knm0[x, mm] == modsum(W0, m, x, mm, nh), knm1[x, mm] == modsum(W1, m, x, mm, nh))))"),
    ('K2-node-degrees', "forall(lambda x: implies(inr(x, nh), And(kn0[x] == rsum(W0, x, nh), kn1[x] == rsum(W1, x, nh))))"),
    ('K3-module-degrees', "forall(lambda mm: implies(inr(mm, nh), And(km0[mm] == degsum(W0, m, mm, nh), km1[mm] == degsum(W1, m, mm, nh))))"),
    ('LAB-labels-in-range', "forall(lambda y: implies(inr(y, nh), And(m[y] >= 1, m[y] <= nh)))"),
    ('QMONO-signed-quality-never-below-level-start', (QSL % ('m', 'm')) + " >= " + (QSL % ('m0', 'm0'))),
    ('FRAME', "nh == n0"),
]
CONTRACTS['modularity_louvain_und_sign#level'] = Contract(
    MOD, 'modularity_louvain_und_sign', ['W', 'gamma', 'qtype', 'seed'], setup=_setup_level_sign, key='modularity_louvain_und_sign#level', nonlinear='uf',
    fragment=('kn0 = np.sum(W0, axis=0)', 'while flag'),
    requires=[('level-matrices-symmetric', "forall(lambda x, y: implies(And(inr(x, n0), inr(y, n0)), And(W0[x, y] == W0[y, x], W1[x, y] == W1[y, x])))")],
    loops={'while flag': {'name': 'sweeps', 'inv': LSIGN_INV}, 'for u in rng.permutation(nh)': {'name': 'moves', 'inv': LSIGN_INV}},
    ghost_after={'m = np.arange(nh) + 1': "m0 = snapshot(m); assume(lemma_modularity(W0, m, nh), lemma_modularity(W1, m, nh))",
                 'ma = m[u] - 1': "assume(lemma_modularity(W0, m, nh), lemma_modularity(W1, m, nh))",
                 'mb = np.argmax(dQ)': "check('argmax-attains-max', dQ[mb] == max_dQ); check('move-changes-module', mb != ma)",
                 'm[u] = mb + 1': "assume(lemma_umul_linear(d0, Qrawg(W0, m, gamma, s0, nh), Qrawg(W0, m_pre, gamma, s0, nh)), lemma_umul_linear(d1, Qrawg(W1, m, gamma, s1, nh), Qrawg(W1, m_pre, gamma, s1, nh)), "
                                  "lemma_umul_linear(d0, dQ0[mb], 0), lemma_umul_linear(d1, dQ1[mb], 0))"},
    ghost_before={'m[u] = mb + 1': "m_pre = snapshot(m)"},
    ensures=[('level-never-lowers-the-signed-quality', (QSL % ('m', 'm')) + " >= " + (QSL % ('m0', 'm0')))])


# ---- modularity_louvain_und, WHOLE FUNCTION (hierarchy=False): composition of the hierarchy levels ------------------------------------
# The node-moving sweeps of one level are used MODULARLY through the fragment contract modularity_louvain_und#level above
# (its requires become obligations here, its ensures are assumed here, its own obligations are discharged from the same
# source lines).  What is proved here is everything around it: the outer `while True` loop with the lists ci / q, the
# relabelling by np.unique, the composition of the label vectors, the aggregation of the working matrix, the formula of q,
# the stopping test and the returned pair.
# Ghost state: Worig (the argument), NN (its size), cur (integer copy of ci[h]: the label of every ORIGINAL node at the
# current level), curp (the same one level earlier), sing (singleton labels), nl (size of the level matrix before `n = np.max(m)`).
def _setup_louvain_full(eng, st):
    N = z3.Int('N')
    st.pc.append(N >= 1)
    st.env['W'] = alloc(st, 2, z3.Const('W0', A2R), (N, N), REAL)
    st.ghost['NN'] = N
    st.env['gamma'] = z3.Real('gamma')
    st.env['hierarchy'] = False
    st.env['seed'] = Opaque('seed')


_LV_OUTER = [
    ('H-level-index', "h >= 0"),
    ('LISTS-one-entry-per-level', "And(len(ci) == h + 1, len(q) == h + 1)"),
    ('SIZES', "And(n >= 1, n <= NN, n0 == NN, s == tsum(Worig, NN), s > 0)"),
    ('CUR-labels-of-original-nodes', "forall(lambda x: implies(inr(x, NN), And(cur[x] >= 1, cur[x] <= n, ci[h][x] == cur[x])))"),
    ('CUR-every-label-1..n-is-used', "forall(lambda l: implies(And(l >= 0, l < n), And(inr(wcur[l], NN), cur[wcur[l]] == l + 1)))"),
    ('CUR-level-0-is-singletons', "implies(h == 0, forall(lambda x: implies(inr(x, NN), cur[x] == x + 1)))"),
    ('W-is-the-aggregate-of-the-argument', "forall(lambda a, b: implies(And(inr(a, n), inr(b, n)), W[a, b] == agg(Worig, cur, a, b, NN)))"),
    ('W-symmetric', "forall(lambda a, b: implies(And(inr(a, n), inr(b, n)), W[a, b] == W[b, a]))"),
    ('W-total', "s == tsum(W, n)"),
    ('Q-of-level', "And(implies(h >= 1, q[h] == Qmod(Worig, cur, gamma, NN)), implies(h == 0, q[h] == -1))"),
    ('QMONO-never-below-singletons', "Qmod(Worig, cur, gamma, NN) >= Qmod(Worig, sing, gamma, NN)"),
    ('FRAME-argument-untouched', "unchanged('W')"),
]

CONTRACTS['modularity_louvain_und'] = Contract(
    MOD, 'modularity_louvain_und', ['W', 'gamma', 'hierarchy', 'seed'], setup=_setup_louvain_full, nonlinear='uf',
    requires=[('undirected', "forall(lambda x, y: implies(And(inr(x, NN), inr(y, NN)), W[x, y] == W[y, x]))"), ('positive-total-weight', "tsum(W, NN) > 0")],
    use_fragments={'level': dict(contract=CONTRACTS['modularity_louvain_und#level'], bind={'n0': 'n'}, bind_post={'m0': "lam1(lambda y: y + 1, n)"},
                                 declare={'m': ('int1', 'n'), 'Knm': ('mat', 'n', 'n')}, ghost_after='m_after_level = snapshot(m)')},
    loops={
        'while True': {'name': 'levels', 'inv': _LV_OUTER, 'ghosts': ['cur', 'wcur'], 'lists': {'ci': 'h + 1', 'q': 'h + 1'}, 'shapes': {'W': ('n', 'n')}},
        'for i in range(n)#0': {'name': 'compose', 'inv': [
            ('COMPOSE-done', "forall(lambda x: implies(And(inr(x, NN), curp[x] <= _it), ci[h][x] == m[curp[x] - 1]))"),
            ('COMPOSE-todo', "forall(lambda x: implies(And(inr(x, NN), curp[x] > _it), ci[h][x] == 0))")]},
        'for i in range(n)#1': {'name': 'agg-rows', 'inv': [
            ('AGG-done', "forall(lambda a, b: implies(And(inr(a, n), inr(b, n), Or(a < _it, b < _it)), W1[a, b] == agg(W, m, a, b, nl)))")]},
        'for j in range(i, n)': {'name': 'agg-cells', 'inv': [
            ('AGG-done', "forall(lambda a, b: implies(And(inr(a, n), inr(b, n), Or(a < i, b < i)), W1[a, b] == agg(W, m, a, b, nl)))"),
            ('AGG-current', "forall(lambda b: implies(And(b >= i, b < i + _it), And(W1[i, b] == agg(W, m, i, b, nl), W1[b, i] == agg(W, m, b, i, nl))))"),
            ('i-in-range', "inr(i, n)")]},
    },
    ghost_after={
        # anchored before the statements they are about, so that an edit of the formula of q / of the returned pair is judged
        # against the lemmas instead of leaving the contract unbound
        'W = W1': "assume(lemma_agg_compose(Worig, cur, W, lam1(lambda y: y + 1, n), cur, gamma, NN, n), lemma_q_from_aggregate(W, lam2(lambda a, b: W[a, b] / s, n), Worig, cur, gamma, s, n, NN))",
        'ci = np.array(ci, dtype=int)': "assume(lemma_relabel(Worig, ci[h - 1], curp, gamma, NN), lemma_relabel(Worig, ci[h], cur, gamma, NN))",
        'n0 = n': "Worig = snapshot(W); sing = lam1(lambda y: y + 1, NN); cur = lam1(lambda y: y + 1, NN); wcur = lam1(lambda l: l, NN); assume(lemma_agg_identity(Worig, cur, NN))",
        'h += 1': "curp = cur; wcurp = wcur; nl = n; assume(lemma_relabel(W, m, m_after_level, gamma, n))",
        'for i in range(n)#0': "cur = lam1(lambda x: m[curp[x] - 1], NN); wcur = lam1(lambda l: wcurp[unique_witness(l)], NN)",
        'W1 = np.zeros((n, n))': "assume(lemma_agg_symm(W, m, nl))",
    },
    ghost_before={
        'W = W1': "Wl = snapshot(W); assume(lemma_agg_compose(Worig, curp, Wl, m, cur, gamma, NN, nl), lemma_agg_compose(Worig, curp, Wl, lam1(lambda y: y + 1, nl), curp, gamma, NN, nl))",
    },
    ensures=[
        ('C07-not-worse-than-singletons', "Qmod(Worig, result(0), gamma, NN) >= Qmod(Worig, sing, gamma, NN)"),
        ('C02-q-is-modularity-of-returned-labels-unless-no-level-was-accepted',
         "Or(result(1) == Qmod(Worig, result(0), gamma, NN), And(result(1) == -1, forall(lambda x: implies(inr(x, NN), result(0)[x] == x + 1))))"),
        ('C02-labels-in-1..k', "And(nl >= 1, nl <= NN, forall(lambda x: implies(inr(x, NN), And(result(0)[x] >= 1, result(0)[x] <= nl))))"),
        ('C02-every-label-1..k-used', "forall(lambda l: implies(And(l >= 1, l <= nl), And(inr(wcurp[l - 1], NN), result(0)[wcurp[l - 1]] == l)))"),
        ('argument-untouched', "unchanged('W')"),
    ])


def _louvain_ghosts(args, result, locs):
    import numpy as np
    W = np.asarray(args['W'], dtype=float)
    N = len(W)
    lab = np.asarray(result[0])
    k = int(lab.max())
    wit = np.array([int(np.flatnonzero(lab == l + 1)[0]) if np.any(lab == l + 1) else -1 for l in range(k)] + [-1] * (N - k))
    return {'Worig': W, 'NN': N, 'sing': np.arange(N) + 1, 'nl': k, 'wcurp': wit}


CONTRACTS['modularity_louvain_und'].concrete_ghosts = _louvain_ghosts


# ---- modularity_louvain_und_sign, WHOLE FUNCTION: composition of the hierarchy levels (all five qtypes at once) ------------------------
# Same architecture as modularity_louvain_und above: the sweeps of a level are used modularly through the fragment contract
# modularity_louvain_und_sign#level; here: the outer loop, the lists ci / q, relabelling, composition, aggregation of BOTH
# working matrices, the formula of q and the returned pair.  Signed quality QS(c) = d0 Qrawg(W0o, c, s0) - d1 Qrawg(W1o, c, s1)
# with W0o / W1o the positive / negative parts of the argument and d0, d1, s0, s1 as the routine sets them for the qtype.
def _setup_sign_full(eng, st):
    N = z3.Int('N')
    st.pc.append(N >= 1)
    st.env['W'] = alloc(st, 2, z3.Const('W0in', A2R), (N, N), REAL)
    st.ghost['NN'] = N
    st.env['gamma'] = z3.Real('gamma')
    st.env['seed'] = Opaque('seed')
    bs = {q: z3.Bool('qtype_is_' + q) for q in QTYPES}
    st.pc.append(z3.AtMost(*bs.values(), 1))
    st.env['qtype'] = Opaque('strsym', eq=lambda lit: bs.get(lit, z3.BoolVal(False)))


QSF = "umul(d0, Qrawg(W0o, %s, gamma, s0, NN)) - umul(d1, Qrawg(W1o, %s, gamma, s1, NN))"
_LS_OUTER = [
    ('H-level-index', "h >= 1"),
    ('LISTS-one-entry-per-level', "And(len(ci) == h + 1, len(q) == h + 1)"),
    ('SIZES', "And(nh >= 1, nh <= NN, n == NN)"),
    ('CUR-labels-of-original-nodes', "forall(lambda x: implies(inr(x, NN), And(cur[x] >= 1, cur[x] <= nh, ci[h][x] == cur[x])))"),
    ('CUR-every-label-1..nh-is-used', "forall(lambda l: implies(And(l >= 0, l < nh), And(inr(wcur[l], NN), cur[wcur[l]] == l + 1)))"),
    ('W0-W1-are-the-aggregates-of-the-signed-parts', "forall(lambda a, b: implies(And(inr(a, nh), inr(b, nh)), And(W0[a, b] == agg(W0o, cur, a, b, NN), W1[a, b] == agg(W1o, cur, a, b, NN))))"),
    ('W0-W1-symmetric', "forall(lambda a, b: implies(And(inr(a, nh), inr(b, nh)), And(W0[a, b] == W0[b, a], W1[a, b] == W1[b, a])))"),
    ('Q-of-level', "And(implies(h >= 2, q[h] == " + (QSF % ('cur', 'cur')) + "), implies(h == 1, And(q[h] == 0, q[h - 1] == -1)))"),
    ('QMONO-never-below-singletons', (QSF % ('cur', 'cur')) + " >= " + (QSF % ('sing', 'sing'))),
    ('FRAME-argument-untouched', "unchanged('W')"),
]
_COMPOSE_G = ("lemma_agg_compose_g(W0o, curp, W0l, m, cur, gamma, s0, NN, nhl), lemma_agg_compose_g(W1o, curp, W1l, m, cur, gamma, s1, NN, nhl), "
              "lemma_agg_compose_g(W0o, curp, W0l, lam1(lambda y: y + 1, nhl), curp, gamma, s0, NN, nhl), lemma_agg_compose_g(W1o, curp, W1l, lam1(lambda y: y + 1, nhl), curp, gamma, s1, NN, nhl)")
CONTRACTS['modularity_louvain_und_sign'] = Contract(
    MOD, 'modularity_louvain_und_sign', ['W', 'gamma', 'qtype', 'seed'], setup=_setup_sign_full, nonlinear='uf',
    requires=[('undirected', "forall(lambda x, y: implies(And(inr(x, NN), inr(y, NN)), W[x, y] == W[y, x]))")],
    use_fragments={'level': dict(contract=CONTRACTS['modularity_louvain_und_sign#level'], bind={'n0': 'nh'}, bind_post={'m0': "lam1(lambda y: y + 1, nh)"},
                                 declare={'m': ('int1', 'nh')}, ghost_after='m_after_level = snapshot(m)')},
    loops={
        'while q[h] - q[h - 1] > 1e-10': {'name': 'levels', 'inv': _LS_OUTER, 'ghosts': ['cur', 'wcur'], 'lists': {'ci': 'h + 1', 'q': ('h + 1', 2)},
                                          'shapes': {'W0': ('nh', 'nh'), 'W1': ('nh', 'nh')}},
        'for u in range(nh)#0': {'name': 'compose', 'inv': [
            ('COMPOSE-done', "forall(lambda x: implies(And(inr(x, NN), curp[x] <= _it), ci[h][x] == m[curp[x] - 1]))"),
            ('COMPOSE-todo', "forall(lambda x: implies(And(inr(x, NN), curp[x] > _it), ci[h][x] == 0))")]},
        'for u in range(nh)#1': {'name': 'agg-rows', 'inv': [
            ('AGG-done', "forall(lambda a, b: implies(And(inr(a, nh), inr(b, nh), Or(a < _it, b < _it)), And(wn0[a, b] == agg(W0, m, a, b, nhl), wn1[a, b] == agg(W1, m, a, b, nhl))))")]},
        'for v in range(u, nh)': {'name': 'agg-cells', 'inv': [
            ('AGG-done', "forall(lambda a, b: implies(And(inr(a, nh), inr(b, nh), Or(a < u, b < u)), And(wn0[a, b] == agg(W0, m, a, b, nhl), wn1[a, b] == agg(W1, m, a, b, nhl))))"),
            ('AGG-current', "forall(lambda b: implies(And(b >= u, b < u + _it), And(wn0[u, b] == agg(W0, m, u, b, nhl), wn0[b, u] == agg(W0, m, b, u, nhl), wn1[u, b] == agg(W1, m, u, b, nhl), wn1[b, u] == agg(W1, m, b, u, nhl))))"),
            ('u-in-range', "inr(u, nh)")]},
    },
    ghost_after={
        's1 = np.sum(W1)': "W0o = snapshot(W0); W1o = snapshot(W1); t0 = s0; t1 = s1",
        'nh = n': "sing = lam1(lambda y: y + 1, NN); cur = lam1(lambda y: y + 1, NN); wcur = lam1(lambda l: l, NN); assume(lemma_agg_identity(W0o, cur, NN), lemma_agg_identity(W1o, cur, NN))",
        'm += 1': "curp = cur; wcurp = wcur; nhl = nh; assume(lemma_relabel_g(W0, m, m_after_level, gamma, s0, nh), lemma_relabel_g(W1, m, m_after_level, gamma, s1, nh))",
        'for u in range(nh)#0': "cur = lam1(lambda x: m[curp[x] - 1], NN); wcur = lam1(lambda l: wcurp[unique_witness(l)], NN)",
        'wn1 = np.zeros((nh, nh))': "assume(lemma_agg_symm(W0, m, nhl), lemma_agg_symm(W1, m, nhl))",
        'W1 = wn1': "assume(lemma_qg_from_aggregate(W0, W0o, cur, gamma, s0, nh, NN), lemma_qg_from_aggregate(W1, W1o, cur, gamma, s1, nh, NN), "
                    "lemma_umul_linear(d0, Qrawg(W0o, cur, gamma, s0, NN), Qrawg(W0o, curp, gamma, s0, NN)), lemma_umul_linear(d1, Qrawg(W1o, cur, gamma, s1, NN), Qrawg(W1o, curp, gamma, s1, NN)))",
        'ci_ret += 1': "assume(lemma_relabel_g(W0o, ci_ret, cur, gamma, s0, NN), lemma_relabel_g(W1o, ci_ret, cur, gamma, s1, NN))",
    },
    ghost_before={
        'W0 = wn0': "W0l = snapshot(W0); W1l = snapshot(W1); assume(" + _COMPOSE_G + ")",
    },
    ensures=[
        ('C07-signed-quality-not-worse-than-singletons', (QSF % ('result(0)', 'result(0)')) + " >= " + (QSF % ('sing', 'sing'))),
        ('C02-q-is-the-signed-quality-of-the-returned-labels', "result(1) == " + (QSF % ('result(0)', 'result(0)'))),
        ('C02-labels-in-1..k', "And(unique_count() >= 1, unique_count() <= NN, forall(lambda x: implies(inr(x, NN), And(result(0)[x] >= 1, result(0)[x] <= unique_count()))))"),
        ('C02-every-label-1..k-used', "forall(lambda l: implies(And(l >= 1, l <= unique_count()), And(inr(unique_witness(l - 1), NN), result(0)[unique_witness(l - 1)] == l)))"),
        # the scaling factors and divisors are those of the requested signed-modularity type (t0, t1: total positive / negative weight)
        ('C02-scaling-of-the-requested-type',
         "And(t0 == tsum(W0o, NN), t1 == tsum(W1o, NN), s0 == (t0 if t0 != 0 else 1), s1 == (t1 if t1 != 0 else 1), implies(t0 == 0, d0 == 0), implies(t1 == 0, d1 == 0), "
         "implies(And(t0 != 0, Or(qtype == 'smp', qtype == 'sta', qtype == 'pos')), d0 == 1 / t0), implies(And(t0 != 0, qtype == 'gja'), d0 == 1 / (t0 + t1)), implies(qtype == 'neg', d0 == 0), "
         "implies(And(t1 != 0, Or(qtype == 'smp', qtype == 'neg')), d1 == 1 / t1), implies(And(t1 != 0, Or(qtype == 'gja', qtype == 'sta')), d1 == 1 / (t0 + t1)), implies(qtype == 'pos', d1 == 0))"),
        ('argument-untouched', "unchanged('W')"),
    ],
    ensures_raises=[('raises-only-for-an-unknown-type-or-a-runaway-loop', "Or(raised('KeyError'), raised('BCTParamError'))")])


def _louvain_sign_ghosts(args, result, locs):
    import numpy as np
    W = np.asarray(args['W'], dtype=float)
    N = len(W)
    W0, W1 = W * (W > 0), -W * (W < 0)
    return {'W0o': W0, 'W1o': W1, 'NN': N, 'sing': np.arange(N) + 1, 't0': float(W0.sum()), 't1': float(W1.sum())}


CONTRACTS['modularity_louvain_und_sign'].concrete_ghosts = _louvain_sign_ghosts


# ---- community_louvain, WHOLE FUNCTION (B='modularity', default start ci=None): composition of the hierarchy levels ------------------
# Objective kernel Bo = symmetrised (W - gamma k_out k_in^T / s); the routine maximises QrawB(Bo, ci) = sum of Bo over same-label pairs and
# returns it divided by s.  The sweeps of a level are used modularly (fragment contract community_louvain#level, which updates
# Mb / Hnm / Hm in place); proved here: construction and symmetrisation of the kernel, initial bookkeeping, the outer loop with the
# first-iteration branch, relabelling, composition of labels, aggregation, q = trace, the returned pair.
def _setup_cl_full(given_ci, objective='modularity'):
    def setup(eng, st):
        N = z3.Int('N')
        st.pc.append(N >= 1)
        st.env['W'] = alloc(st, 2, z3.Const('W0', A2R), (N, N), REAL)
        st.ghost['NN'] = N
        st.env['gamma'] = z3.Real('gamma')
        st.env['ci'] = alloc(st, 1, z3.Const('ci_in', A1I), (N,), INT) if given_ci else None
        st.env['B'] = objective
        st.env['seed'] = Opaque('seed')
    return setup


_CLF = [
    ('SIZES', "And(n >= 1, n <= NN, s == tsum(Worig, NN), s != 0)"),
    # first level: the working matrix is the kernel itself and the level starts from the (canonicalised) start partition;
    # later levels: the working matrix is the aggregate of the kernel under the current labels and the level starts from singletons
    ('FIRST-level-works-on-the-original-nodes', "implies(first_iteration, And(n == NN, q - q0 > 1, forall(lambda x, y: implies(And(inr(x, NN), inr(y, NN)), B[x, y] == Bo[x, y])), "
                                                "forall(lambda x: implies(inr(x, NN), Mb[x] == ci[x]))))"),
    ('LATER-levels-work-on-the-aggregate', "implies(not first_iteration, And(forall(lambda a, b: implies(And(inr(a, n), inr(b, n)), B[a, b] == agg(Bo, ci, a, b, NN))), "
                                           "forall(lambda y: implies(inr(y, n), Mb[y] == y + 1)), q == QrawB(Bo, ci, NN)))"),
    ('CI-labels-of-original-nodes', "forall(lambda x: implies(inr(x, NN), And(ci[x] >= 1, ci[x] <= n)))"),
    ('B-symmetric', "forall(lambda a, b: implies(And(inr(a, n), inr(b, n)), B[a, b] == B[b, a]))"),
    ('BOOKKEEPING-consistent', "forall(lambda x, mm: implies(And(inr(x, n), inr(mm, n)), Hnm[x, mm] == modsum(B, Mb, x, mm, n)))"),
    ('QMONO-never-below-start', "QrawB(Bo, ci, NN) >= QrawB(Bo, ci0, NN)"),
    ('FRAME-argument-untouched', "unchanged('W')"),
]


_POTTS = "(W[%s, %s] - (gamma if W[%s, %s] == 0 else 0))"
_KERNEL_DEF = {
    # the objective kernel the routine optimises, cell by cell (before symmetrisation), as documented for each built-in objective
    'potts': "forall(lambda x, y: implies(And(inr(x, NN), inr(y, NN)), Bo[x, y] == (" + (_POTTS % ('x', 'y', 'x', 'y')) + " + " + (_POTTS % ('y', 'x', 'y', 'x')) + ") / 2))",
}


def _signed_kernel(x, y, d0, d1):
    k0 = "(W0[%s, %s] - gamma * (rsum(W0, %s, NN) * csum(W0, %s, NN)) / s0)" % (x, y, x, y)
    k1 = "((W1[%s, %s] - gamma * (rsum(W1, %s, NN) * csum(W1, %s, NN)) / s1) if s1 != 0 else 0)" % (x, y, x, y)
    return "(%s / %s - %s / %s)" % (k0, d0, k1, d1)


for _o, (_d0, _d1) in {'negative_sym': ('(s0 + s1)', '(s0 + s1)'), 'negative_asym': ('s0', '(s0 + s1)')}.items():
    _KERNEL_DEF[_o] = ("And(forall(lambda x, y: implies(And(inr(x, NN), inr(y, NN)), And(W0[x, y] == (W[x, y] if W[x, y] > 0 else 0), W1[x, y] == (-W[x, y] if W[x, y] < 0 else 0)))), "
                       "s0 == tsum(W0, NN), s1 == tsum(W1, NN), "
                       "forall(lambda x, y: implies(And(inr(x, NN), inr(y, NN)), Bo[x, y] == (" + _signed_kernel('x', 'y', _d0, _d1) + " + " + _signed_kernel('y', 'x', _d0, _d1) + ") / 2)))")


def _cl_contract(given_ci, objective='modularity'):
    key = 'community_louvain' + ('' if objective == 'modularity' else ':' + objective) + ('@ci' if given_ci else '')
    modular = objective == 'modularity'
    signed = objective in ('negative_sym', 'negative_asym')
    req = [('total-weight-nonzero', "tsum(W, NN) != 0")]
    if not signed:
        req.append(('weights-nonnegative', "forall(lambda x, y: implies(And(inr(x, NN), inr(y, NN)), W[x, y] >= 0))"))
    ens_q = "result(1) == QrawB(Bo, result(0), NN)" + ("" if signed else " / s")
    ens = [('C02-q-is-the-objective-of-the-returned-labels' + ('' if signed else '-over-s'), ens_q)]
    if modular:
        ens += [('C02-q-is-the-modularity-of-the-returned-labels', "result(1) == Qmod(Worig, result(0), gamma, NN)"),
                ('C07-modularity-not-worse-than-the-start', "implies(s > 0, Qmod(Worig, result(0), gamma, NN) >= Qmod(Worig, ci0, gamma, NN))")]
    if objective in _KERNEL_DEF:
        ens.append(('KERNEL-is-the-documented-objective', _KERNEL_DEF[objective]))
    ens += [('C07-objective-not-worse-than-start', "QrawB(Bo, result(0), NN) >= QrawB(Bo, ci0, NN)"),
            ('C02-labels-in-range', "forall(lambda x: implies(inr(x, NN), And(result(0)[x] >= 1, result(0)[x] <= NN)))"),
            ('argument-untouched', "unchanged('W')")]
    gb = {}
    if modular:
        gb['if not renormalize'] = "assume(lemma_Q_from_kernel(Bo, Worig, ci, gamma, s, NN), lemma_Q_from_kernel(Bo, Worig, ci0, gamma, s, NN))"
    return Contract(
        MOD, 'community_louvain', ['W', 'gamma', 'ci', 'B', 'seed'], setup=_setup_cl_full(given_ci, objective), key=key,
        requires=req,
        use_fragments={'level': dict(contract=CONTRACTS['community_louvain#level'], bind={'n0': 'n', 'Mb0': 'Mbs'}, ghost_before='Mbs = snapshot(Mb)', ghost_after='Mb_after_level = snapshot(Mb)')},
        loops={
            'for m in range(1, n + 1)': {'name': 'init', 'inv': [
                ('INIT-columns-done', "forall(lambda x, mm: implies(And(inr(x, n), mm >= 0, mm < _it), Hnm[x, mm] == modsum(B, ci, x, mm, n)))"),
                ('INIT-columns-todo', "forall(lambda x, mm: implies(And(inr(x, n), mm >= _it, mm < n), Hnm[x, mm] == 0))")]},
            'while q - q0 > 1e-10': {'name': 'levels', 'inv': _CLF, 'shapes': {'B': ('n', 'n'), 'Hnm': ('n', 'n'), 'H': ('n',), 'Hm': ('n',), 'Mb': ('n',), 'ci': ('NN',)}},
            'for u in range(1, n + 1)': {'name': 'compose', 'inv': [
                ('COMPOSE-done', "forall(lambda x: implies(And(inr(x, NN), M0[x] <= _it), ci[x] == Mb[M0[x] - 1]))"),
                ('COMPOSE-todo', "forall(lambda x: implies(And(inr(x, NN), M0[x] > _it), ci[x] == M0[x]))")]},
            'for i in range(1, n + 1)': {'name': 'agg-rows', 'inv': [
                ('AGG-done', "forall(lambda a, b: implies(And(inr(a, n), inr(b, n), Or(a < _it, b < _it)), b1[a, b] == agg(B, Mb, a, b, nl)))")]},
            'for j in range(i, n + 1)': {'name': 'agg-cells', 'inv': [
                ('AGG-done', "forall(lambda a, b: implies(And(inr(a, n), inr(b, n), Or(a < i - 1, b < i - 1)), b1[a, b] == agg(B, Mb, a, b, nl)))"),
                ('AGG-current', "forall(lambda b: implies(And(b >= i - 1, b < i - 1 + _it), And(b1[i - 1, b] == agg(B, Mb, i - 1, b, nl), b1[b, i - 1] == agg(B, Mb, b, i - 1, nl))))"),
                ('i-in-range', "And(i >= 1, i <= n)")]},
        },
        ghost_after={
            's = np.sum(W)': "Worig = snapshot(W)",
            'Hnm = np.zeros((n, n))': "Bo = snapshot(B); ci0 = snapshot(ci)",
            'q0 = -np.inf': "assume(INF > 1 + abs(np.sum(B[np.tile(ci, (n, 1)) == np.tile(ci, (n, 1)).T]) / s))",
            'Mb += 1': "nl = n; cip = snapshot(ci); assume(lemma_relabel_B(B, Mb, Mb_after_level, n))",
            'Mb = np.arange(1, n + 1)': "assume(lemma_modularity(B, Mb, n))",
            'b1 = np.zeros((n, n))': "assume(lemma_agg_symm(B, Mb, nl))",
            # first level: B is the kernel cell by cell (extensionality) and the start labels of the level are the current labels; later
            # levels: aggregation composes.  Each instance is an implication; the one whose hypotheses hold on the path is used.
            'for i in range(1, n + 1)': "Bl = snapshot(B); assume(lemma_ext_B(Bl, Bo, Mb, NN), lemma_ext_B(Bl, Bo, Mbs, NN), lemma_relabel_B(Bo, Mbs, cip, NN), "
                                        "lemma_agg_compose_B(Bo, cip, Bl, Mb, ci, NN, nl), lemma_agg_compose_B(Bo, cip, Bl, Mbs, cip, NN, nl), lemma_trace_agg(b1, Bo, ci, n, NN))",
        },
        ghost_before=gb, ensures=ens,
        ensures_raises=[('raises-only-on-a-runaway-loop', "raised('BCTParamError')")])


CONTRACTS['community_louvain'] = _cl_contract(False)
CONTRACTS['community_louvain@ci'] = _cl_contract(True)
for _obj in ('potts', 'negative_sym', 'negative_asym'):
    CONTRACTS['community_louvain:' + _obj] = _cl_contract(False, _obj)


def _cl_ghosts(args, result, locs):
    import numpy as np
    W = np.asarray(args['W'], dtype=float)
    N = len(W)
    s = W.sum()
    K = W - args['gamma'] * np.outer(W.sum(axis=1), W.sum(axis=0)) / s
    start = np.arange(N) + 1 if args.get('ci') is None else np.unique(np.asarray(args['ci']), return_inverse=True)[1] + 1
    return {'Worig': W, 'NN': N, 'Bo': (K + K.T) / 2, 'ci0': start, 's': s}


CONTRACTS['community_louvain'].concrete_ghosts = _cl_ghosts
CONTRACTS['community_louvain@ci'].concrete_ghosts = _cl_ghosts


def _cl_obj_ghosts(args, result, locs):
    import numpy as np
    W = np.asarray(args['W'], dtype=float)
    N, g, obj = len(W), args['gamma'], args['B']
    if obj == 'potts':
        K = W - g * (W == 0)
    else:
        W0, W1 = W * (W > 0), -W * (W < 0)
        s0, s1 = W0.sum(), W1.sum()
        B0 = W0 - g * np.outer(W0.sum(1), W0.sum(0)) / s0
        B1 = W1 - g * np.outer(W1.sum(1), W1.sum(0)) / s1 if s1 else 0 * W
        K = B0 / (s0 + s1) - B1 / (s0 + s1) if obj == 'negative_sym' else B0 / s0 - B1 / (s0 + s1)
    return {'Worig': W, 'NN': N, 'Bo': (K + K.T) / 2, 'ci0': np.arange(N) + 1}


for _obj in ('potts', 'negative_sym', 'negative_asym'):
    CONTRACTS['community_louvain:' + _obj].concrete_ghosts = _cl_obj_ghosts


# ---- modularity_probtune_und_sign (C02: consistent pair; the routine is not a monotone optimiser, so no C07 clause) ----------------------
def _setup_probtune(eng, st):
    _setup_sign(eng, st)
    st.env['p'] = z3.Real('p')


_PT_INV = [
    ('LAB-labels-in-range', "forall(lambda y: implies(inr(y, n), And(ci[y] >= 1, ci[y] <= n)))"),
    ('FRAME-arguments-untouched', "And(unchanged('W'), unchanged('ci'), n == n0)"),
]
_SCALING = ("And(t0 == tsum(W0, n0), t1 == tsum(W1, n0), s0 == (t0 if t0 != 0 else 1), s1 == (t1 if t1 != 0 else 1), implies(t0 == 0, d0 == 0), implies(t1 == 0, d1 == 0), "
            "implies(And(t0 != 0, Or(qtype == 'smp', qtype == 'sta', qtype == 'pos')), d0 == 1 / t0), implies(And(t0 != 0, qtype == 'gja'), d0 == 1 / (t0 + t1)), implies(qtype == 'neg', d0 == 0), "
            "implies(And(t1 != 0, Or(qtype == 'smp', qtype == 'neg')), d1 == 1 / t1), implies(And(t1 != 0, Or(qtype == 'gja', qtype == 'sta')), d1 == 1 / (t0 + t1)), implies(qtype == 'pos', d1 == 0))")
CONTRACTS['modularity_probtune_und_sign'] = Contract(
    MOD, 'modularity_probtune_und_sign', ['W', 'qtype', 'gamma', 'ci', 'p', 'seed'], setup=_setup_probtune, nonlinear='uf',
    requires=[('undirected', "forall(lambda x, y: implies(And(inr(x, n0), inr(y, n0)), W[x, y] == W[y, x]))")],
    loops={
        'for m in range(int(np.max(ci)))': {'name': 'init', 'inv': [
            ('INIT-columns-done', "forall(lambda x, mm: implies(And(inr(x, n), mm >= 0, mm < _it), And(Knm0[x, mm] == modsum(W0, ci, x, mm, n), Knm1[x, mm] == modsum(W1, ci, x, mm, n))))"),
            ('INIT-columns-todo', "forall(lambda x, mm: implies(And(inr(x, n), mm >= _it, mm < n), And(Knm0[x, mm] == 0, Knm1[x, mm] == 0)))")]},
        'for u in rng.permutation(n)': {'name': 'moves', 'inv': _PT_INV},
    },
    ghost_after={
        's1 = np.sum(W1)': "t0 = s0; t1 = s1",
        'Km1 = np.sum(Knm1, axis=0)': "assume(lemma_modularity(W0, ci, n), lemma_modularity(W1, ci, n), lemma_knm_sums(Knm0, W0, ci, n, 'out'), lemma_knm_sums(Knm1, W1, ci, n, 'out'))",
    },
    ghost_before={"return (ci, q)": "check('kn-are-the-row-sums', forall(lambda x: implies(inr(x, n), And(Kn0[x] == rsum(W0, x, n), Kn1[x] == rsum(W1, x, n))))); "
                                    "check('signed-parts-symmetric', forall(lambda x, y: implies(And(inr(x, n), inr(y, n)), And(W0[x, y] == W0[y, x], W1[x, y] == W1[y, x])))); "
                                    "assume(lemma_Qrawg_def(q0, W0, ci, Kn0, gamma, s0, n), lemma_Qrawg_def(q1, W1, ci, Kn1, gamma, s1, n))"},
    ensures=[('C02-q-is-the-signed-quality-of-the-returned-labels', "result(1) == " + (QS % ('result(0)', 'result(0)')).replace(', n)', ', n0)')),
             ('C02-scaling-of-the-requested-type', _SCALING),
             ('C02-labels-in-1..k', "And(unique_count() >= 1, unique_count() <= n0, forall(lambda y: implies(inr(y, n0), And(result(0)[y] >= 1, result(0)[y] <= unique_count()))))"),
             ('C02-every-label-1..k-used', "forall(lambda l: implies(And(l >= 1, l <= unique_count()), And(inr(unique_witness(l - 1), n0), result(0)[unique_witness(l - 1)] == l)))"),
             ('arguments-untouched', "And(unchanged('W'), unchanged('ci'))")],
    ensures_raises=[('raises-only-for-an-unknown-type', "raised('KeyError')")])


def _probtune_ghosts(args, result, locs):
    import numpy as np
    W = np.asarray(args['W'], dtype=float)
    return {'t0': float((W * (W > 0)).sum()), 't1': float((-W * (W < 0)).sum())}


CONTRACTS['modularity_probtune_und_sign'].concrete_ghosts = _probtune_ghosts
CONTRACTS['modularity_finetune_und_sign'].concrete_ghosts = _probtune_ghosts
