"""Sidecar contracts for bct/algorithms/modularity.py (C02: returned q is the modularity of the returned labels, labels are 1..k;
C07: the optimiser never returns a partition worse than its start).

Spec functions (engine/pyvc/core.py): modsum / modsumT (node-to-module sums of outgoing / incoming weight), degsum / degsumT
(module out- / in-degree), agg (module-by-module aggregate), tsum, Qmod (modularity; defining equation and the lemmas below are
code-independent mathematics, Lean VerifLemmas).  KInv: the bookkeeping arrays equal these sums for the current labels.
"""
import z3
from engine.pyvc.core import Contract, Opaque, alloc, fresh, A2R, A1I, INT, REAL, BOOL

MOD = 'bct.algorithms.modularity'
RNG = "forall(lambda x, m: implies(And(inr(x, n), inr(m, n)), %s))"


def _setup(sym=True, has_ci=True):
    def setup(eng, st):
        n = z3.Int('n')
        st.pc.append(n >= 1)
        st.env['W'] = alloc(st, 2, z3.Const('W0', A2R), (n, n), REAL)
        st.ghost['n0'] = n
        st.env['ci'] = alloc(st, 1, z3.Const('ci_in', A1I), (n,), INT) if has_ci else None
        st.env['gamma'] = z3.Real('gamma')
        st.env['seed'] = Opaque('seed')
    return setup


REQ_UND = [('undirected', "forall(lambda x, y: implies(And(inr(x, n0), inr(y, n0)), W[x, y] == W[y, x]))"),
           ('positive-total-weight', "tsum(W, n0) > 0")]

KINV_UND = [
    ('K1-node-to-module-sums', RNG % "knm[x, m] == modsum(W, ci, x, m, n)"),
    ('K2-node-degrees', "forall(lambda x: implies(inr(x, n), k[x] == rsum(W, x, n)))"),
    ('K3-module-degrees', "forall(lambda m: implies(inr(m, n), km[m] == degsum(W, ci, m, n)))"),
    ('LAB-labels-in-range', "forall(lambda y: implies(inr(y, n), And(ci[y] >= 1, ci[y] <= n)))"),
    ('QMONO-never-below-start', "Qmod(W, ci, gamma, n) >= Qmod(W, ci0, gamma, n)"),
    ('S-total', "And(s == tsum(W, n), n == n0)"),
    ('FRAME-arguments-untouched', "And(unchanged('W'), unchanged('ci'))"),
]
LEMMAS_UND = "assume(lemma_modularity(W, ci, n))"

FINAL_OUTER = [('AGG-done-rows', "forall(lambda a, b: implies(And(inr(a, m), inr(b, m), Or(a < _it, b < _it)), w[a, b] == agg(W, ci, a, b, n)))")]
FINAL_INNER = [('AGG-done-rows', "forall(lambda a, b: implies(And(inr(a, m), inr(b, m), Or(a < u, b < u)), w[a, b] == agg(W, ci, a, b, n)))"),
               ('AGG-current-row', "forall(lambda b: implies(And(inr(b, m), b < _it), And(w[u, b] == agg(W, ci, u, b, n), w[b, u] == agg(W, ci, b, u, n))))"),
               ('u-in-range', 'inr(u, m)')]

CONTRACTS = {}
CONTRACTS['modularity_finetune_und'] = Contract(
    MOD, 'modularity_finetune_und', ['W', 'ci', 'gamma', 'seed'], setup=_setup(), requires=REQ_UND, nonlinear='uf',
    loops={
        'for m in range(np.max(ci))': {'name': 'init', 'inv': [
            ('INIT-columns-done', "forall(lambda x, mm: implies(And(inr(x, n), mm >= 0, mm < _it), knm[x, mm] == modsum(W, ci, x, mm, n)))"),
            ('INIT-columns-todo', "forall(lambda x, mm: implies(And(inr(x, n), mm >= _it, mm < n), knm[x, mm] == 0))")]},
        'while flag': {'name': 'sweeps', 'inv': KINV_UND},
        'for u in rng.permutation(n)': {'name': 'moves', 'inv': KINV_UND},
        'for u in range(m)': {'name': 'agg-rows', 'inv': FINAL_OUTER},
        'for v in range(m)': {'name': 'agg-cells', 'inv': FINAL_INNER},
    },
    ghost_after={
        "ci += 1#0": "ci0 = snapshot(ci); assume(lemma_relabel(W, ci, arg('ci'), gamma, n))",
        "flag = True#0": "assume(lemma_modularity(W, ci, n), lemma_knm_sums(knm, W, ci, n, 'out'))",
        "ma = ci[u] - 1": LEMMAS_UND,
        "mb = np.argmax(dq)": "check('argmax-attains-max', dq[mb] == max_dq); check('move-changes-module', mb != ma); "
                              "check('gain-is-the-lemma-expression', dq[mb] == (modsum(W, ci, u, mb, n) - modsum(W, ci, u, ma, n) + W[u, u]) - gamma * rsum(W, u, n) * (degsum(W, ci, mb, n) - degsum(W, ci, ma, n) + rsum(W, u, n)) / s)",
        "ci += 1#1": "assume(lemma_relabel(W, ci, ci_before_final, gamma, n))",
        "w = np.zeros((m, m))": "assume(lemma_modularity(W, ci, n))",
    },
    ghost_before={"_, ci = np.unique(ci, return_inverse=True)#1": "ci_before_final = snapshot(ci)",
                  # anchored at the return statement so that an edit of the formula of q is judged against the lemma, not unbound
                  "return (ci, q)": "assume(lemma_q_from_aggregate(w, lam2(lambda a, b: w[a, b] / s, m), W, ci, gamma, s, m, n))"},
    ensures=[
        ('C07-not-worse-than-start', "Qmod(W, result(0), gamma, n0) >= Qmod(W, arg('ci'), gamma, n0)"),
        ('C02-q-is-modularity-of-returned-labels', "result(1) == Qmod(W, result(0), gamma, n0)"),
        ('C02-labels-in-1..k', "forall(lambda y: implies(inr(y, n0), And(result(0)[y] >= 1, result(0)[y] <= m)))"),
        ('C02-every-label-1..k-used', "forall(lambda l: implies(And(l >= 1, l <= m), And(inr(unique_witness(l - 1), n0), result(0)[unique_witness(l - 1)] == l)))"),
        ('arguments-untouched', "And(unchanged('W'), unchanged('ci'))"),
    ])


# ---- modularity_finetune_dir ----------------------------------------------------------------------------------------------------
REQ_DIR = [('positive-total-weight', "tsum(W, n0) > 0")]
KINV_DIR = [
    ('K1o-node-to-module-out-sums', RNG % "knm_o[x, m] == modsum(W, ci, x, m, n)"),
    ('K1i-node-to-module-in-sums', RNG % "knm_i[x, m] == modsumT(W, ci, x, m, n)"),
    ('K2-node-degrees', "forall(lambda x: implies(inr(x, n), And(k_o[x] == rsum(W, x, n), k_i[x] == csum(W, x, n))))"),
    ('K3-module-degrees', "forall(lambda m: implies(inr(m, n), And(km_o[m] == degsum(W, ci, m, n), km_i[m] == degsumT(W, ci, m, n))))"),
    ('LAB-labels-in-range', "forall(lambda y: implies(inr(y, n), And(ci[y] >= 1, ci[y] <= n)))"),
    ('QMONO-never-below-start', "Qmod(W, ci, gamma, n) >= Qmod(W, ci0, gamma, n)"),
    ('S-total', "And(s == tsum(W, n), n == n0)"),
    ('FRAME-arguments-untouched', "And(unchanged('W'), unchanged('ci'))"),
]
CONTRACTS['modularity_finetune_dir'] = Contract(
    MOD, 'modularity_finetune_dir', ['W', 'ci', 'gamma', 'seed'], setup=_setup(), requires=REQ_DIR, nonlinear='uf',
    loops={
        'for m in range(np.max(ci))': {'name': 'init', 'inv': [
            ('INIT-columns-done', "forall(lambda x, mm: implies(And(inr(x, n), mm >= 0, mm < _it), And(knm_o[x, mm] == modsum(W, ci, x, mm, n), knm_i[x, mm] == modsumT(W, ci, x, mm, n))))"),
            ('INIT-columns-todo', "forall(lambda x, mm: implies(And(inr(x, n), mm >= _it, mm < n), And(knm_o[x, mm] == 0, knm_i[x, mm] == 0)))")]},
        'while flag': {'name': 'sweeps', 'inv': KINV_DIR},
        'for u in rng.permutation(n)': {'name': 'moves', 'inv': KINV_DIR},
        'for u in range(m)': {'name': 'agg-rows', 'inv': [('AGG-done-rows', "forall(lambda a, b: implies(And(inr(a, m), inr(b, m), a < _it), w[a, b] == agg(W, ci, a, b, n)))")]},
        'for v in range(m)': {'name': 'agg-cells', 'inv': [
            ('AGG-done-rows', "forall(lambda a, b: implies(And(inr(a, m), inr(b, m), a < u), w[a, b] == agg(W, ci, a, b, n)))"),
            ('AGG-current-row', "forall(lambda b: implies(And(inr(b, m), b < _it), w[u, b] == agg(W, ci, u, b, n)))"), ('u-in-range', 'inr(u, m)')]},
    },
    ghost_after={
        "ci += 1#0": "ci0 = snapshot(ci); assume(lemma_relabel(W, ci, arg('ci'), gamma, n))",
        "flag = True#0": "assume(lemma_modularity(W, ci, n), lemma_knm_sums(knm_o, W, ci, n, 'out'), lemma_knm_sums(knm_i, W, ci, n, 'in'))",
        "ma = ci[u] - 1": "assume(lemma_modularity(W, ci, n))",
        "mb = np.argmax(dq)": "check('argmax-attains-max', dq[mb] == max_dq); check('move-changes-module', mb != ma); "
                              "check('gain-is-the-lemma-expression', 2 * dq[mb] == "
                              "((modsum(W, ci, u, mb, n) - modsum(W, ci, u, ma, n) + W[u, u]) - gamma * rsum(W, u, n) * (degsumT(W, ci, mb, n) - degsumT(W, ci, ma, n) + csum(W, u, n)) / s) + "
                              "((modsumT(W, ci, u, mb, n) - modsumT(W, ci, u, ma, n) + W[u, u]) - gamma * csum(W, u, n) * (degsum(W, ci, mb, n) - degsum(W, ci, ma, n) + rsum(W, u, n)) / s))",
        "ci += 1#1": "assume(lemma_relabel(W, ci, ci_before_final, gamma, n))",
    },
    ghost_before={"_, ci = np.unique(ci, return_inverse=True)#1": "ci_before_final = snapshot(ci)",
                  "return (ci, q)": "assume(lemma_q_from_aggregate(w, lam2(lambda a, b: w[a, b] / s, m), W, ci, gamma, s, m, n))"},
    ensures=CONTRACTS['modularity_finetune_und'].ensures)
