"""Sidecar contract for clustering_coef_bu (C09): the loop-based binary undirected clustering coefficient equals its definition by enumeration of
neighbour pairs: C[u] = (sum of G[v][w] over ordered pairs (v, w) of neighbours of u) / (k (k - 1)), k = number of neighbours of u; 0 when k < 2.
nbrsum is a specification function whose link with the sub-matrix G[np.ix_(V, V)] of an enumeration V of the neighbours is a Lean theorem."""
import z3
from engine.pyvc.core import Contract, alloc, A2R, REAL

CONTRACTS = {}


def _setup(eng, st):
    n = z3.Int('n0c')
    st.pc.append(n >= 1)
    st.ghost['n0'] = n
    st.env['G'] = alloc(st, 2, z3.Const('G0', A2R), (n, n), REAL)


_DEF = "(nbrsum(G, x, n0) / (rcnt(G, x, n0) * rcnt(G, x, n0) - rcnt(G, x, n0)) if rcnt(G, x, n0) >= 2 else 0)"
CONTRACTS['clustering_coef_bu'] = Contract(
    'bct.algorithms.clustering', 'clustering_coef_bu', ['G'], setup=_setup,
    loops={'for u in range(n)': {'name': 'nodes', 'inv': [
        ('DONE-nodes-visited-hold-their-coefficient', "forall(lambda x: implies(And(inr(x, n0), x < _it), C[x] == %s))" % _DEF),
        ('TODO-nodes-not-visited-hold-zero', "forall(lambda x: implies(And(inr(x, n0), x >= _it), C[x] == 0))"),
        ('FRAME', "And(n == n0, unchanged('G'))")]}},
    ghost_after={'k = len(V)': "assume(lemma_nbrsum(G, V, k, u, n0))"},
    ensures=[('coefficient-is-the-fraction-of-connected-neighbour-pairs', "forall(lambda x: implies(inr(x, n0), result()[x] == %s))" % _DEF),
             ('argument-untouched', "unchanged('G')")])

CONTRACTS['clustering_coef_bu'].inputs = [('G', 'G0', 'mat', 'n0c')]
