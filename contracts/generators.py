"""Sidecar contracts for the synthetic network generators of bct/algorithms/reference.py (C20)."""
import z3
from engine.pyvc.core import Contract, Opaque, alloc, fresh, A2R, A1I, INT, REAL, BOOL

REF = 'bct.algorithms.reference'
CONTRACTS = {}


def _setup_nk(eng, st):
    n = z3.Int('n')
    st.pc.append(n >= 1)
    st.env['n'] = n
    st.ghost['n0'] = n
    st.env['k'] = z3.Int('k')
    st.env['s'] = z3.Real('s')
    st.env['seed'] = Opaque('seed')


# maketoeplitzCIJ: the acceptance loop ends only with exactly k connections; the template has a zero diagonal (first entry of the
# Toeplitz column is the literal 0 and scaling keeps it 0) and random_sample() < 0 is impossible, so the diagonal stays empty.
_TOEP_INV = [
    ('ENTRIES-0-or-1', "forall(lambda x, y: implies(And(inr(x, n0), inr(y, n0)), Or(CIJ[x, y] == 0, CIJ[x, y] == 1)))"),
    ('DIAGONAL-empty', "forall(lambda x: implies(inr(x, n0), CIJ[x, x] == 0))"),
    ('TEMPLATE-zero-diagonal', "forall(lambda x: implies(inr(x, n0), template[x, x] == 0))"),
    ('FRAME', "n == n0"),
]
CONTRACTS['maketoeplitzCIJ'] = Contract(
    REF, 'maketoeplitzCIJ', ['n', 'k', 's', 'seed'], setup=_setup_nk,
    loops={'while np.sum(CIJ) != k': {'name': 'accept', 'inv': _TOEP_INV}},
    ensures=[
        ('exactly-k-connections', "tsum(result(), n0) == k"),
        ('entries-0-or-1', "forall(lambda x, y: implies(And(inr(x, n0), inr(y, n0)), Or(result()[x, y] == 0, result()[x, y] == 1)))"),
        ('empty-diagonal', "forall(lambda x: implies(inr(x, n0), result()[x, x] == 0))"),
        ('size', "shape_is(result(), n0, n0)"),
    ])


# makerandCIJ_dir / makerandCIJ_und: k distinct flat positions of off-diagonal (upper-triangle) cells are set to 1.
def _setup_rand(eng, st):
    n = z3.Int('n')
    st.pc.append(n >= 1)
    st.env['n'] = n
    st.ghost['n0'] = n
    st.env['k'] = z3.Int('k')
    st.env['seed'] = Opaque('seed')


CONTRACTS['makerandCIJ_dir'] = Contract(
    REF, 'makerandCIJ_dir', ['n', 'k', 'seed'], setup=_setup_rand,
    requires=[('k-at-most-the-number-of-off-diagonal-cells', "And(k >= 0, k <= n * n - n)")],
    ghost_after={'ix, = np.where(*': "assume(lemma_flat_count(ix, n, 'offdiag'))",
                 'CIJ.flat[*] = *': "assume(lemma_image_count(CIJ, flat_store_rows(), flat_store_cols(), flat_store_len(), n))"},
    ensures=[
        ('exactly-k-connections', "tsum(result(), n0) == k"),
        ('entries-0-or-1', "forall(lambda x, y: implies(And(inr(x, n0), inr(y, n0)), Or(result()[x, y] == 0, result()[x, y] == 1)))"),
        ('empty-diagonal', "forall(lambda x: implies(inr(x, n0), result()[x, x] == 0))"),
        ('size', "shape_is(result(), n0, n0)"),
    ])

CONTRACTS['makerandCIJ_und'] = Contract(
    REF, 'makerandCIJ_und', ['n', 'k', 'seed'], setup=_setup_rand,
    requires=[('k-at-most-the-number-of-node-pairs', "And(k >= 0, 2 * k <= n * n - n)")],
    ghost_after={'ix, = np.where(*': "assume(lemma_flat_count(ix, n, 'upper'))",
                 'CIJ.flat[*] = *': "half = snapshot(CIJ); assume(lemma_image_count(CIJ, flat_store_rows(), flat_store_cols(), flat_store_len(), n))"},
    ghost_before={'return CIJ': "assume(lemma_tsum_plus_transpose(half, CIJ, n))"},
    ensures=[
        ('exactly-k-undirected-connections', "tsum(result(), n0) == 2 * k"),
        ('symmetric', "forall(lambda x, y: implies(And(inr(x, n0), inr(y, n0)), result()[x, y] == result()[y, x]))"),
        ('entries-0-or-1', "forall(lambda x, y: implies(And(inr(x, n0), inr(y, n0)), Or(result()[x, y] == 0, result()[x, y] == 1)))"),
        ('empty-diagonal', "forall(lambda x: implies(inr(x, n0), result()[x, x] == 0))"),
        ('size', "shape_is(result(), n0, n0)"),
    ])


# ---- makeringlatticeCIJ ----------------------------------------------------------------------------------------------------------------
# circular distance of two nodes: min(|x-y|, n-|x-y|); the c-th pass of the fill loop adds exactly the cells at circular distance c.
def _circ(op, c):
    d = "abs(x - y)"
    if op == '<=':
        return "Or(%s <= %s, n0 - %s <= %s)" % (d, c, d, c)
    if op == '<':
        return "Or(%s < %s, n0 - %s < %s)" % (d, c, d, c)
    if op == '==':
        return "Or(%s == %s, n0 - %s == %s)" % (d, c, d, c)
    if op == '>':
        return "And(%s > %s, n0 - %s > %s)" % (d, c, d, c)


_CELLS = "forall(lambda x, y: implies(And(inr(x, n0), inr(y, n0)), %s))"
_RING_FILL = [
    ('COUNT-range', "And(count >= 0, 2 * count <= n0, n == n0)"),
    ('FILL-bands-up-to-count-are-full-nothing-else', _CELLS % ("CIJ[x, y] == (1 if And(x != y, %s) else 0)" % _circ('<=', 'count'))),
    ('LAST-band', "implies(count >= 1, " + _CELLS % ("dCIJ[x, y] == (1 if And(x != y, %s) else 0)" % _circ('==', 'count')) + ")"),
    ('KK-is-the-number-of-connections', "And(kk == tsum(CIJ, n0), implies(count == 0, kk == 0))"),
    ('KK-before-the-last-band-was-short', "implies(count >= 1, And(kkp < k, kk == kkp + tsum(dCIJ, n0)))"),
    ('ONES', _CELLS % "CIJ1[x, y] == 1"),
]
CONTRACTS['makeringlatticeCIJ'] = Contract(
    REF, 'makeringlatticeCIJ', ['n', 'k', 'seed'], setup=_setup_rand,
    requires=[('k-at-most-the-number-of-off-diagonal-cells', "And(k >= 0, k <= n * n - n)")],
    loops={
        'while kk < k': {'name': 'fill', 'inv': _RING_FILL, 'declare': {'dCIJ': ('mat', 'n', 'n')}, 'ghosts': ['kkp']},
        'for ii in range(overby)': {'name': 'remove', 'inv': [
            ('REMOVED-exactly-the-drawn-cells', _CELLS % "CIJ[x, y] == (0 if exists(lambda t: And(t >= 0, t < _it, i[rp[t]] == x, j[rp[t]] == y)) else full[x, y])"),
            ('FRAME', "And(n == n0, overby == kk - k)")]},
    },
    ghost_before={
        'while kk < k': "kkp = 0; assume(lemma_image_count(CIJ, lam1(lambda t: 0, 0), lam1(lambda t: 0, 0), 0, n))",
        'count += 1': "kkp = kk; assume(lemma_full_offdiag(CIJ, n))",
        'CIJ += dCIJ': "before = snapshot(CIJ)",
        'overby = kk - k': "full = snapshot(CIJ)",
        'return CIJ': "assume(lemma_tsum_add(CIJ, lam2(lambda x, y: full[x, y] - CIJ[x, y], n), full, n))",
    },
    ghost_after={
        'CIJ += dCIJ': "assume(lemma_tsum_add(before, dCIJ, CIJ, n), lemma_tsum_int(CIJ, n))",
        'rp = rng.permutation(np.size(i))': "assume(lemma_image_count(dCIJ, i, j, np.size(i), n)); check('count-positive-when-excess', count >= 1); check('last-band-size', tsum(dCIJ, n) == np.size(i)); check('excess-fits-in-last-band', And(overby >= 1, overby <= np.size(i)))",
        'for ii in range(overby)': "assume(lemma_image_count(lam2(lambda x, y: full[x, y] - CIJ[x, y], n), lam1(lambda t: i[rp[t]], overby), lam1(lambda t: j[rp[t]], overby), overby, n))",
    },
    ensures=[
        ('exactly-k-connections', "tsum(result(), n0) == k"),
        ('entries-0-or-1', _CELLS % "Or(result()[x, y] == 0, result()[x, y] == 1)"),
        ('empty-diagonal', "forall(lambda x: implies(inr(x, n0), result()[x, x] == 0))"),
        ('nearer-bands-full-farther-bands-empty', "And(count >= 0, 2 * count <= n0, " + _CELLS % ("And(implies(And(x != y, %s), result()[x, y] == 1), implies(%s, result()[x, y] == 0))" % (_circ('<', 'count'), _circ('>', 'count'))) + ")"),
        ('size', "shape_is(result(), n0, n0)"),
    ])


def _ring_ghosts(args, result, locs):
    return {'count': locs.get('count', 0)}


CONTRACTS['makeringlatticeCIJ'].concrete_ghosts = _ring_ghosts


# makefractalCIJ, final part (FRAGMENT from `prob = ...` to the return): whatever hierarchical template and exponents the first part built, the
# returned matrix is 0/1 with an empty diagonal and the reported count is its number of connections.  ASSUMED at entry: ee is an n x n matrix and
# the template side s equals n (s = 2**mx_lvl = n: arithmetic of the first part, bounded only).  E ** ee is an uninterpreted elementwise power.
def _setup_fract(eng, st):
    n = z3.Int('n')
    st.pc.append(n >= 1)
    st.env['n'] = n
    st.env['s'] = n
    st.ghost['n0'] = n
    st.env['E'] = z3.Real('E')
    st.env['ee'] = alloc(st, 2, z3.Const('ee0', A2R), (n, n), REAL)
    st.env['rng'] = Opaque('rng')


CONTRACTS['makefractalCIJ#draw'] = Contract(
    REF, 'makefractalCIJ', ['mx_lvl', 'E', 'sz_cl', 'seed'], setup=_setup_fract, key='makefractalCIJ#draw', nonlinear='uf',
    fragment=('prob = 1 / E ** ee * (np.ones((s, s)) - np.eye(s))', 'return (np.array(CIJ, dtype=int), k)'),
    ensures=[
        ('reported-count-is-the-number-of-connections', "result(1) == tsum(lam2(lambda x, y: result(0)[x, y], n0), n0)"),
        ('entries-0-or-1', "forall(lambda x, y: implies(And(inr(x, n0), inr(y, n0)), Or(result(0)[x, y] == 0, result(0)[x, y] == 1)))"),
        ('empty-diagonal', "forall(lambda x: implies(inr(x, n0), result(0)[x, x] == 0))"),
        ('size', "shape_is(result(0), n0, n0)"),
    ])
