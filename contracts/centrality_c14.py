"""Sidecar contracts for partition consumers (C14).  participation_coef is given a functional specification in terms of the node-to-module sums;
that specification depends on the labels only through the partition (Lean: msq_relabel), which is what C14 states."""
import z3
from engine.pyvc.core import Contract, Opaque, alloc, fresh, A2R, A1I, INT, REAL, BOOL

MOD = 'bct.algorithms.centrality'
CONTRACTS = {}


def _setup_pc(eng, st):
    n = z3.Int('n0c')
    st.pc.append(n >= 1)
    st.ghost['n0'] = n
    st.env['W'] = alloc(st, 2, z3.Const('W0', A2R), (n, n), REAL)
    st.env['ci'] = alloc(st, 1, z3.Const('ci_in', A1I), (n,), INT)
    st.env['degree'] = 'undirected'


CONTRACTS['participation_coef'] = Contract(
    MOD, 'participation_coef', ['W', 'ci', 'degree'], setup=_setup_pc,
    loops={'for i in range(1, int(np.max(ci)) + 1)': {'name': 'modules', 'inv': [
        ('KC2-sum-of-squared-module-sums-so-far', "forall(lambda x: implies(inr(x, n0), Kc2[x] == msq(W, ci, x, _it, n0)))"),
        ('FRAME', "And(n == n0, unchanged('W'), unchanged('ci'))")]}},
    ghost_after={'Kc2 = np.zeros((n,))': "assume(lemma_msq(W, ci, 0, n0))"},
    ghost_before={'Kc2 = Kc2 + *': "assume(lemma_msq(W, ci, i - 1, n0), lemma_modsum_def(W * (Gc == i), W, ci, i - 1, n0))"},
    ensures=[('participation-is-one-minus-the-squared-module-shares',
              "forall(lambda x: implies(inr(x, n0), result()[x] == (0 if rsum(W, x, n0) == 0 else 1 - msq(W, ci, x, unique_count(), n0) / (rsum(W, x, n0) * rsum(W, x, n0)))))"),
             ('labels-used-are-the-ranks-of-the-given-labels', "forall(lambda y, z: implies(And(inr(y, n0), inr(z, n0)), iff(ci[y] == ci[z], arg('ci')[y] == arg('ci')[z])))"),
             ('labels-used-lie-in-1..K', "forall(lambda y: implies(inr(y, n0), And(ci[y] >= 1, ci[y] <= unique_count())))"),
             ('arguments-untouched', "And(unchanged('W'), unchanged('ci'))")])
CONTRACTS['participation_coef'].unique_from_local_ci = True
