"""Sidecar contract for the rewiring loop of randomizer_bin_und (C01), as a FRAGMENT: the loop `for it in range(k)` for an arbitrary entry state
that satisfies the stated entry conditions (assumed; they are set up by the preprocessing of the function -- complement for dense input,
removal of full nodes, INF diagonal, edge list of the upper triangle -- which stays with the bounded tier).

Working matrix R: symmetric, off-diagonal entries 0/1, diagonal INF.  Edge list (i, j) of length k.  Every pass either leaves R alone or replaces
the connections a-b, c-d by a-c, b-d, where a-b is the listed connection `it` and c-d is a connection between two nodes that are joined to neither
a nor b; then the entry that listed c-d is rewritten to list b-d.  INVARIANT: the entries still AHEAD of the loop counter name present, pairwise
different connections (so the next a-b really is a connection), and every node keeps its number of connections."""
import z3
from engine.pyvc.core import Contract, Opaque, alloc, A2R, A1I, INT, REAL

MODULE = 'bct.algorithms.reference'
CONTRACTS = {}


def _setup(eng, st):
    n = z3.Int('n')
    k = z3.Int('k0')
    st.pc += [n >= 2, k >= 0]
    st.ghost['n0'] = n
    st.env['ax'] = n
    st.env['k'] = k
    st.env['R'] = alloc(st, 2, z3.Const('R0', A2R), (n, n), REAL)
    st.ghost['Rin'] = alloc(st, 2, z3.Const('R0', A2R), (n, n), REAL)        # the working matrix as it is on entry to the loop
    st.env['i'] = alloc(st, 1, z3.Const('i0', A1I), (k,), INT)
    st.env['j'] = alloc(st, 1, z3.Const('j0', A1I), (k,), INT)
    st.env['alpha'] = z3.Real('alpha')
    st.env['rng'] = Opaque('rng')


_N1 = "forall(lambda x: implies(inr(x, n0), %s))"
_N2 = "forall(lambda x, y: implies(And(inr(x, n0), inr(y, n0)), %s))"


def _names(e, x, y):
    return "Or(And(i[%s] == %s, j[%s] == %s), And(i[%s] == %s, j[%s] == %s))" % (e, x, e, y, e, y, e, x)


def _state(lo):
    return [
        ('SHAPE', "And(ax == n0, k >= 0, len(i) == k, len(j) == k)"),
        ('BIN-off-diagonal-entries-are-0-or-1', _N2 % "implies(x != y, Or(R[x, y] == 0, R[x, y] == 1))"),
        ('DIAG-diagonal-is-infinite', _N1 % "R[x, x] == INF"),
        ('SYM-symmetric', _N2 % "R[x, y] == R[y, x]"),
        ('AHEAD-listed-entries-name-present-connections', "forall(lambda e: implies(And(e >= %s, e < k), And(inr(i[e], n0), inr(j[e], n0), i[e] != j[e], R[i[e], j[e]] == 1)))" % lo),
        ('AHEAD-listed-entries-are-pairwise-different-connections', "forall(lambda e, f: implies(And(e >= %s, f >= %s, e < k, f < k, e != f), And(Or(i[e] != i[f], j[e] != j[f]), Or(i[e] != j[f], j[e] != i[f]))))" % (lo, lo)),
        ('DEGREE-every-node-keeps-its-number-of-connections', _N1 % "And(ccnt(R, x, n0) == ccnt(Rin, x, n0), rcnt(R, x, n0) == rcnt(Rin, x, n0))"),
    ]


_ENTRY = [(a, b.replace('Rin', 'R')) for a, b in _state('0') if not a.startswith('DEGREE')] + [('infinity-is-neither-0-nor-1', 'And(INF != 0, INF != 1)')]
CONTRACTS['randomizer_bin_und#rewire'] = Contract(
    MODULE, 'randomizer_bin_und', ['R', 'alpha', 'seed'], setup=_setup, key='randomizer_bin_und#rewire',
    fragment=('for it in range(k)', 'for it in range(k)'),
    requires=_ENTRY,
    loops={'for it in range(k)': {'name': 'passes', 'inv': _state('_it') + [('INF', 'And(INF != 0, INF != 1)')]},
           'for m in range(k)': {'name': 'reindex', 'inv': [c for c in _state('it + 1') if not c[0].startswith('AHEAD')] + [
               ('INF', 'And(INF != 0, INF != 1)'),
               ('CHOSEN', "And(inr(it, k), inr(b, n0), inr(d, n0), inr(c, n0), b != d, c != d, R[b, d] == 1, R[c, d] == 0)"),
               ('AHEAD-entries-already-visited-name-present-connections', "forall(lambda e: implies(And(e > it, e < k), And(inr(i[e], n0), inr(j[e], n0), i[e] != j[e], "
                                                                         "Or(R[i[e], j[e]] == 1, And(e >= _it, Or(And(i[e] == c, j[e] == d), And(i[e] == d, j[e] == c)))))))"),
               ('AHEAD-listed-entries-are-pairwise-different-connections', "forall(lambda e, f: implies(And(e > it, f > it, e < k, f < k, e != f), And(Or(i[e] != i[f], j[e] != j[f]), Or(i[e] != j[f], j[e] != i[f]))))"),
               ('NEW-connection-b-d-is-not-listed-among-the-entries-still-to-visit', "forall(lambda e: implies(And(e > it, e >= _it, e < k), Not(%s)))" % _names('e', 'b', 'd')),
               ('NEW-connection-b-d-is-listed-only-in-place-of-c-d', "forall(lambda e, f: implies(And(e > it, e < _it, f > it, f >= _it, f < k, %s), Not(%s)))" % (_names('e', 'b', 'd'), _names('f', 'c', 'd'))),
           ]}},
    ensures=[(a, b) for a, b in _state('k') if a.split('-')[0] in ('BIN', 'DIAG', 'SYM', 'DEGREE')])


# ---- whole function, for inputs on which neither the complement branch nor the full-node branch is taken --------------------------------
# The rewiring loop is used modularly through the fragment contract above (its entry conditions are obligations here).  The two preprocessing
# branches (complement of a dense network, removal of fully connected nodes) and their undoing are abstracted AND ASSUMED NOT TO BE TAKEN
# (path condition stated as an assumption): for such inputs they stay with the bounded tier.
def _setup_whole(eng, st):
    n = z3.Int('n')
    st.pc.append(n >= 2)
    st.ghost['n0'] = n
    st.env['R'] = alloc(st, 2, z3.Const('Rarg', A2R), (n, n), REAL)
    st.env['alpha'] = z3.Real('alpha')
    st.env['seed'] = Opaque('seed')


CONTRACTS['randomizer_bin_und:sparse'] = Contract(
    MODULE, 'randomizer_bin_und', ['R', 'alpha', 'seed'], setup=_setup_whole, key='randomizer_bin_und:sparse',
    requires=[('empty-diagonal', _N1 % "R[x, x] == 0"), ('undirected', _N2 % "R[x, y] == R[y, x]"), ('infinity-is-neither-0-nor-1', 'And(INF != 0, INF != 1)')],
    use_fragments={'rewire': dict(contract=CONTRACTS['randomizer_bin_und#rewire'], bind={'Rin': 'Rs'}, ghost_before='Rs = snapshot(R)')},
    abstract={'if k > nr_poss_edges / 2': {'assume_not_taken': True}, 'if np.size(fullnodes)': {'assume_not_taken': True}},
    # lemma instances are anchored NEXT TO the statements they are about (so that an edit of such a statement is judged, not unbound)
    ghost_before={'savediag = np.diag(R).copy()': "Rb = snapshot(R); assume(lemma_count_support(Rb, arg('R'), n0))",
                  'i, j = np.where(*': "assume(lemma_count_diag(Rb, R, n0))",
                  'R += savediag': "Rz = snapshot(R); assume(lemma_count_diag(Rz, Rl, n0))",
                  'return np.array(R, dtype=int)': "assume(lemma_count_support(R, Rz, n0))"},
    ghost_after={'if swap': "Rl = snapshot(R)"},
    ensures=[('result-is-the-final-working-matrix-as-integers', _N2 % "result()[x, y] == R[x, y]"),
             ('every-node-keeps-its-degree', _N1 % "And(ccnt(R, x, n0) == ccnt(arg('R'), x, n0), rcnt(R, x, n0) == rcnt(arg('R'), x, n0))"),
             ('symmetric', _N2 % "result()[x, y] == result()[y, x]"),
             ('no-self-connection', _N1 % "result()[x, x] == 0"),
             ('argument-untouched', "unchanged('R')")])
