"""Sidecar contracts for bct/algorithms/distance.py (C12: retrieve_shortest_path).

retrieve_shortest_path is proved against the abstract predicate FloydConsistent(L, SPL, hops, Pmat) that its producer
distance_wei_floyd is supposed to establish (that the producer establishes it is checked by the bounded tier only: C12/B):
  for all i, j in range:  hops[i,j] is a non-negative integer;  hops[i,j] == 0  <->  (i == j or j unreachable from i);
  if hops[i,j] > 0 then p = Pmat[i,j] is a node, L[i,p] is the length of an existing connection (W[i,p] != 0),
  hops[p,j] == hops[i,j] - 1, SPL[i,j] == L[i,p] + SPL[p,j], and j is reachable from p or p == j.
Ghost parameters (specification only): reach (boolean matrix), conn (boolean: connection exists), L, SPL.
"""
import z3
from engine.pyvc.core import Contract, Opaque, alloc, fresh, A2R, A2I, A1I, INT, REAL, BOOL

MOD = 'bct.algorithms.distance'
A2B = z3.ArraySort(INT, z3.ArraySort(INT, BOOL))


def _setup(eng, st):
    n = z3.Int('n')
    st.pc.append(n >= 1)
    st.ghost['n0'] = n
    st.env['s'] = z3.Int('s_in')
    st.env['t'] = z3.Int('t_in')
    st.ghost['s0'] = st.env['s']
    st.env['hops'] = alloc(st, 2, z3.Const('hops0', A2I), (n, n), INT)     # float array with integer values, modelled as integers
    st.env['Pmat'] = alloc(st, 2, z3.Const('Pmat0', A2I), (n, n), INT)
    st.ghost['reach'] = alloc(st, 2, z3.Const('reach0', A2B), (n, n), BOOL)
    st.ghost['conn'] = alloc(st, 2, z3.Const('conn0', A2B), (n, n), BOOL)
    st.ghost['L'] = alloc(st, 2, z3.Const('L0', A2R), (n, n), REAL)
    st.ghost['SPL'] = alloc(st, 2, z3.Const('SPL0', A2R), (n, n), REAL)
    st.ghost['acc'] = z3.RealVal(0)


FLOYD_CONSISTENT = ("forall(lambda i, j: implies(And(inr(i, n0), inr(j, n0)), And("
                    "hops[i, j] >= 0, "
                    "iff(hops[i, j] == 0, Or(i == j, not reach[i, j])), "
                    "implies(hops[i, j] > 0, And(inr(Pmat[i, j], n0), conn[i, Pmat[i, j]], hops[Pmat[i, j], j] == hops[i, j] - 1, "
                    "SPL[i, j] == L[i, Pmat[i, j]] + SPL[Pmat[i, j], j], Or(reach[Pmat[i, j], j], Pmat[i, j] == j))))), pattern=hops[i, j])")

CONTRACTS = {}
CONTRACTS['retrieve_shortest_path'] = Contract(
    MOD, 'retrieve_shortest_path', ['s', 't', 'hops', 'Pmat'], setup=_setup,
    requires=[('s-t-are-nodes', 'And(inr(s, n0), inr(t, n0))'), ('FloydConsistent', FLOYD_CONSISTENT), ('SPL-diagonal-zero', "forall(lambda i: implies(inr(i, n0), SPL[i, i] == 0))")],
    loops={'for ind in range(1, len(path))': {'name': 'follow', 'inv': [
        ('current-node', 'And(inr(s, n0), path[_it, 0] == s, path[0, 0] == s0)'),
        ('hops-remaining', 'hops[s, t] == path_length - _it'),
        ('walk-along-connections', "forall(lambda q: implies(And(q >= 0, q < _it), And(inr(path[q, 0], n0), conn[path[q, 0], path[q + 1, 0]])))"),
        ('length-accumulated', 'acc + SPL[s, t] == SPL[s0, t]'),
        ('target-still-ahead', 'Or(reach[s, t], s == t)'),
        ('shape', 'And(path_length == hops[s0, t], path_length >= 1)'),
    ], 'ghosts': ['acc']}},
    # ghost bookkeeping anchored at the loop body (not at a statement) so that an edit of a body statement is judged, not unbound
    ghost_before={'body:for ind in range(1, len(path))': 'prev = s'},
    ghost_after={'body:for ind in range(1, len(path))': 'acc = acc + L[prev, s]'},
    ensures=[
        ('empty-exactly-when-no-path-of-positive-length', "iff(result_is_empty(), Or(s0 == t, not reach[s0, t]))"),
        ('starts-at-source', "implies(not result_is_empty(), result()[0, 0] == s0)"),
        ('has-reported-number-of-hops', "implies(not result_is_empty(), shape_is(result(), hops[s0, t] + 1, 1))"),
        ('ends-at-target', "implies(not result_is_empty(), result()[hops[s0, t], 0] == t)"),
        ('moves-along-existing-connections', "implies(not result_is_empty(), forall(lambda q: implies(And(q >= 0, q < hops[s0, t]), conn[result()[q, 0], result()[q + 1, 0]])))"),
        ('has-reported-total-length', "implies(not result_is_empty(), acc == SPL[s0, t])"),
        ('arguments-untouched', "And(unchanged('hops'), unchanged('Pmat'))"),
    ])


# ---- distance_bin (C03): the returned matrix holds the length of a shortest walk (= shortest path) for every ordered pair of
# distinct nodes, INF exactly where there is none, 0 on the diagonal.  np.inf is the real constant INF (required: INF > n).
# walk / sdist are spec functions whose defining facts (lemma_walks) are code-independent (Lean).
def _setup_db(eng, st):
    n = z3.Int('n')
    st.pc.append(n >= 1)
    st.ghost['n0'] = n
    st.env['G'] = alloc(st, 2, z3.Const('G0', A2R), (n, n), REAL)


DB_INV = [
    ('shape', 'And(n >= 1, len(G) == n0)'),
    ('G-is-binarised-input', "forall(lambda x, y: implies(And(inr(x, n0), inr(y, n0)), G[x, y] == (1 if arg('G')[x, y] != 0 else 0)))"),
    ('P1a-nPATH-nonnegative', "forall(lambda x, y: implies(And(inr(x, n0), inr(y, n0)), nPATH[x, y] >= 0))"),
    ('P1b-nPATH-nonzero-only-for-walks-of-length-n', "forall(lambda x, y: implies(And(inr(x, n0), inr(y, n0), nPATH[x, y] != 0), walk(G, x, y, n)), pattern=nPATH[x, y])"),
    ('P1c-every-walk-of-length-n-is-in-nPATH', "forall(lambda x, y: implies(And(inr(x, n0), inr(y, n0), walk(G, x, y, n)), nPATH[x, y] != 0), pattern=walk(G, x, y, n))"),
    ('P2-found-entries-are-shortest', "forall(lambda x, y: implies(And(inr(x, n0), inr(y, n0), x != y, D[x, y] != 0), And(D[x, y] == sdist(G, x, y), sdist(G, x, y) >= 1, sdist(G, x, y) < n)))"),
    ('P3-open-entries-have-no-shorter-walk', "forall(lambda x, y: implies(And(inr(x, n0), inr(y, n0), x != y, D[x, y] == 0), Or(sdist(G, x, y) == 0, sdist(G, x, y) >= n)))"),
    ('P4-diagonal-marked', "forall(lambda x: implies(inr(x, n0), D[x, x] >= 1))"),
    ('L-is-the-new-pairs', "forall(lambda x, y: implies(And(inr(x, n0), inr(y, n0)), iff(L[x, y], And(nPATH[x, y] != 0, Or(D[x, y] == 0, n == 1)))))"),
    ('FRAME-argument-untouched', "unchanged('G')"),
]
CONTRACTS['distance_bin'] = Contract(
    MOD, 'distance_bin', ['G'], setup=_setup_db, dot_support=True,
    requires=[('infinity-exceeds-any-hop-count', 'INF > n0')],
    loops={'while np.any(L)': {'name': 'powers', 'inv': DB_INV}},
    ghost_after={'n = 1': "assume(lemma_walks(G, n0))", 'body:while np.any(L)': "assume(lemma_walks(G, n0))",
                 'while np.any(L)': "assume(lemma_walks(G, n0, n)); "
                                    "check('exit-no-new-pair', forall(lambda x, y: implies(And(inr(x, n0), inr(y, n0)), not L[x, y]))); "
                                    "check('exit-no-open-pair-at-distance-n', forall(lambda x, y: implies(And(inr(x, n0), inr(y, n0), x != y, D[x, y] == 0), sdist(G, x, y) != n))); "
                                    "check('exit-no-open-pair-beyond-n', forall(lambda x, y: implies(And(inr(x, n0), inr(y, n0), x != y, D[x, y] == 0), sdist(G, x, y) <= n)))"},
    ghost_before={'body:while np.any(L)': "assume(lemma_walks(G, n0))",
                  'D[D == 0] = np.inf': "assume(lemma_sdist_support(G, arg('G'), n0)); check('found-entries-are-integers', forall(lambda x, y: implies(And(inr(x, n0), inr(y, n0), x != y, D[x, y] != 0), D[x, y] < INF)))"},
    ensures=[('distance-is-shortest-walk-length', "forall(lambda x, y: implies(And(inr(x, n0), inr(y, n0), x != y, sdist(G, x, y) >= 1), result()[x, y] == sdist(G, x, y)))"),
             ('infinite-when-no-walk', "forall(lambda x, y: implies(And(inr(x, n0), inr(y, n0), x != y, sdist(G, x, y) == 0), result()[x, y] == INF))"),
             ('infinite-only-when-no-walk', "forall(lambda x, y: implies(And(inr(x, n0), inr(y, n0), x != y, result()[x, y] == INF), sdist(G, x, y) == 0))"),
             ('diagonal-zero', "forall(lambda x: implies(inr(x, n0), result()[x, x] == 0))"),
             ('hop-distances-of-the-binarised-copy-are-those-of-the-argument', "forall(lambda x, y: implies(And(inr(x, n0), inr(y, n0)), sdist(G, x, y) == sdist(arg('G'), x, y)))"),
             ('argument-untouched', "unchanged('G')")])


# ---- navigation_wu: ONE greedy navigation (fragment: from `curr_paths = [curr_node]` to the end of the walk loop) -------------------------
# For an arbitrary source (curr_node at entry) and target: the recorded node list is a walk from the source along existing
# connections; on success it ends at the target and the three reported lengths are its hop count, its summed connection
# length and its summed distance; on failure all three are infinite.  ASSUMED at entry (set by the enclosing loops, not part of
# the fragment): curr_node, target are distinct nodes, last_node == curr_node.  The bookkeeping of the outer loops (matrices
# PL_*, the dict of paths, the success ratio) is bounded only.
def _setup_nav(eng, st):
    n = z3.Int('n')
    st.pc.append(n >= 1)
    st.env['n'] = n
    st.ghost['n0'] = n
    st.env['L'] = alloc(st, 2, z3.Const('L0', A2R), (n, n), REAL)
    st.env['D'] = alloc(st, 2, z3.Const('D0', A2R), (n, n), REAL)
    for nm in ('curr_node', 'last_node', 'target'):
        st.env[nm] = z3.Int(nm + '0')
    st.ghost['src'] = st.env['curr_node']
    st.env['max_hops'] = Opaque('maybe_none', isnone=z3.Bool('max_hops_is_none'), val=z3.Int('max_hops'), name='max_hops')


_NAV_WALK = ("And(len(curr_paths) >= 1, curr_paths[0] == src, forall(lambda k: implies(And(k >= 0, k < len(curr_paths)), inr(curr_paths[k], n0))), "
             "forall(lambda k: implies(And(k >= 0, k < len(curr_paths) - 1), L[curr_paths[k], curr_paths[k + 1]] != 0)))")
_NAV_INV = [
    ('PATH-is-a-walk-from-the-source-along-existing-connections', _NAV_WALK),
    ('PATH-ends-at-the-current-node', "And(curr_paths[len(curr_paths) - 1] == curr_node, inr(curr_node, n0), inr(target, n0))"),
    ('LENGTHS-are-those-of-the-path', "And(pl_bin == len(curr_paths) - 1, pl_wei == pathsum(L, curr_paths), pl_dis == pathsum(D, curr_paths))"),
    ('FRAME', "And(n == n0, unchanged('L'), unchanged('D'))"),
]
CONTRACTS['navigation_wu#walk'] = Contract(
    MOD, 'navigation_wu', ['L', 'D', 'max_hops'], setup=_setup_nav, key='navigation_wu#walk',
    fragment=('curr_paths = [curr_node]', 'while curr_node != target'),
    requires=[('source-and-target-are-distinct-nodes', "And(inr(curr_node, n0), inr(target, n0), curr_node != target, last_node == curr_node)")],
    loops={'while curr_node != target': {'name': 'walk', 'inv': _NAV_INV}},
    ghost_after={'pl_dis = 0': "assume(lemma_pathsum(L, curr_paths, 0), lemma_pathsum(D, curr_paths, 0))",
                 'curr_paths.append(*)': "assume(lemma_pathsum_append(L), lemma_pathsum_append(D))"},
    ensures=[
        ('path-is-a-walk-from-the-source-along-existing-connections', _NAV_WALK),
        ('success-reaches-the-target-with-the-reported-lengths-failure-reports-infinity',
         "Or(And(pl_bin == INF, pl_wei == INF, pl_dis == INF), "
         "And(curr_paths[len(curr_paths) - 1] == target, pl_bin == len(curr_paths) - 1, pl_wei == pathsum(L, curr_paths), pl_dis == pathsum(D, curr_paths)))"),
    ])


# ---- efficiency_bin (C03: "reports exactly the mean inverse of these distances"), global variant -------------------------------------
# distance_inv is a function nested in efficiency_bin: the same matrix-powers loop as distance_bin, followed by the entrywise inverse.
# It is proved on its own (same invariant as distance_bin) and used modularly in the contract of efficiency_bin(local=False).
def _setup_di(eng, st):
    n = z3.Int('n0c')
    st.pc.append(n >= 1)
    st.ghost['n0'] = n
    st.env['g'] = alloc(st, 2, z3.Const('g0', A2R), (n, n), REAL)


def _di_inv():
    out = []
    for name, src in DB_INV:
        src = src.replace("arg('G')", "ARGG").replace('G', 'g').replace('ARGg', "arg('g')")
        if name == 'G-is-binarised-input':
            name, src = 'g-is-the-binary-argument', "forall(lambda x, y: implies(And(inr(x, n0), inr(y, n0)), And(g[x, y] == arg('g')[x, y], Or(g[x, y] == 0, g[x, y] == 1))))"
        if name == 'shape':
            src = 'And(n >= 1, len(g) == n0)'
        out.append((name, src))
    return out


_DIGHOST = {k: v.replace('(G,', '(g,') for k, v in {
    'n = 1': "assume(lemma_walks(G, n0))", 'body:while np.any(L)': "assume(lemma_walks(G, n0))",
    'while np.any(L)': "assume(lemma_walks(G, n0, n)); "
                       "check('exit-no-new-pair', forall(lambda x, y: implies(And(inr(x, n0), inr(y, n0)), not L[x, y]))); "
                       "check('exit-no-open-pair-at-distance-n', forall(lambda x, y: implies(And(inr(x, n0), inr(y, n0), x != y, D[x, y] == 0), sdist(G, x, y) != n))); "
                       "check('exit-no-open-pair-beyond-n', forall(lambda x, y: implies(And(inr(x, n0), inr(y, n0), x != y, D[x, y] == 0), sdist(G, x, y) <= n)))"}.items()}
CONTRACTS['efficiency_bin.distance_inv'] = Contract(
    'bct.algorithms.efficiency', 'efficiency_bin.distance_inv', ['g'], setup=_setup_di, dot_support=True, key='efficiency_bin.distance_inv',
    requires=[('binary-input', "forall(lambda x, y: implies(And(inr(x, n0), inr(y, n0)), Or(g[x, y] == 0, g[x, y] == 1)))"), ('infinity-exceeds-any-hop-count', 'INF > n0')],
    loops={'while np.any(L)': {'name': 'powers', 'inv': _di_inv()}},
    ghost_after=_DIGHOST, ghost_before={'body:while np.any(L)': "assume(lemma_walks(g, n0))"},
    ensures=[('inverse-of-the-shortest-path-length', "forall(lambda x, y: implies(And(inr(x, n0), inr(y, n0), x != y, sdist(g, x, y) >= 1), result()[x, y] == 1 / sdist(g, x, y)))"),
             ('zero-when-there-is-no-path', "forall(lambda x, y: implies(And(inr(x, n0), inr(y, n0), x != y, sdist(g, x, y) == 0), result()[x, y] == 0))"),
             ('diagonal-zero', "forall(lambda x: implies(inr(x, n0), result()[x, x] == 0))"),
             ('argument-untouched', "unchanged('g')")])


def _callee_distance_inv(eng, st, args, kw, node):
    """contract of the nested function distance_inv (proved above as efficiency_bin.distance_inv): requires become obligations at the
    call site, the result is a fresh matrix about which exactly the ensures are assumed."""
    from engine.pyvc.core import to_z3, truth, sdist
    ref = args[0]
    o = st.heap[ref.oid]
    G = eng.pure(o.term)
    n = to_z3(o.shape[0], INT)
    x, y = z3.Ints('x!di y!di')
    inxy = z3.And(x >= 0, x < n, y >= 0, y < n)
    g = lambda a, b: z3.Select(z3.Select(G, a), b)
    eng.oblige(st, 'call[distance_inv]/requires/binary-input', z3.ForAll([x, y], z3.Implies(inxy, z3.Or(g(x, y) == 0, g(x, y) == 1))))
    eng.oblige(st, 'call[distance_inv]/requires/infinity-exceeds-any-hop-count', z3.Real('INF') > z3.ToReal(n))
    R = fresh('dinv', A2R)
    r = lambda a, b: z3.Select(z3.Select(R, a), b)
    sd = sdist(G, x, y)
    st.pc.append(z3.ForAll([x, y], z3.Implies(z3.And(inxy, x != y), z3.And(z3.Implies(sd >= 1, r(x, y) == 1 / z3.ToReal(sd)), z3.Implies(sd == 0, r(x, y) == 0))), patterns=[r(x, y)]))
    st.pc.append(z3.ForAll([x], z3.Implies(z3.And(x >= 0, x < n), r(x, x) == 0), patterns=[r(x, x)]))
    return alloc(st, 2, R, o.shape, REAL)


def _setup_eb(eng, st):
    n = z3.Int('n0c')
    st.pc.append(n >= 2)
    st.ghost['n0'] = n
    st.env['G'] = alloc(st, 2, z3.Const('G0', A2R), (n, n), REAL)
    st.env['local'] = False


CONTRACTS['efficiency_bin'] = Contract(
    'bct.algorithms.efficiency', 'efficiency_bin', ['G', 'local'], setup=_setup_eb,
    requires=[('infinity-exceeds-any-hop-count', 'INF > n0')],
    ensures=[('global-efficiency-is-the-mean-inverse-shortest-path-length',
              "And(result() == tsum(e, n0) / (n0 * n0 - n0), "
              "forall(lambda x, y: implies(And(inr(x, n0), inr(y, n0)), G[x, y] == (1 if arg('G')[x, y] != 0 else 0))), "
              "forall(lambda x, y: implies(And(inr(x, n0), inr(y, n0), x != y), And(implies(sdist(G, x, y) >= 1, e[x, y] == 1 / sdist(G, x, y)), implies(sdist(G, x, y) == 0, e[x, y] == 0)))), "
              "forall(lambda x: implies(inr(x, n0), e[x, x] == 0)))"),
             ('argument-untouched', "unchanged('G')")])
CONTRACTS['efficiency_bin'].callees = {'distance_inv': _callee_distance_inv}


# ---- breadth (BFS from one source) and breadthdist (C03) -----------------------------------------------------------------------------
# Classical queue invariant (CLRS 22.2).  lev(v) = 0 for the source, distance[v] otherwise.  The routine records the length of the
# shortest cycle through the source in distance[source]; with a self-loop AT the source that assignment happens while the source's own
# neighbours are still being processed and their distances come out one too large (observation, DESIGN 12.3): required here: no
# self-loop at the source.  d(v) = sdist(CIJ, source, v).
def _setup_bfs(eng, st):
    n = z3.Int('n0c')
    st.pc.append(n >= 1)
    st.ghost['n0'] = n
    st.env['CIJ'] = alloc(st, 2, z3.Const('C0', A2R), (n, n), REAL)
    st.env['source'] = z3.Int('source')


_LEV = "(0 if %s == source else distance[%s])"
_D = "sdist(CIJ, source, %s)"
_NODE = "forall(lambda v: implies(inr(v, n0), %s))"
_BFS_STATE = [
    ('SHAPE', "And(n == n0, inr(source, n0), white == 0, gray == 1, black == 2, unchanged('CIJ'))"),
    ('COLORS', _NODE % "Or(color[v] == 0, color[v] == 1, color[v] == 2)"),
    ('SOURCE-discovered', "color[source] != 0"),
    ('SOURCE-while-queued-is-the-head-at-distance-zero', "implies(color[source] == 1, And(distance[source] == 0, len(Q) >= 1, Q[0] == source))"),
    ('DIST-discovered-nodes-carry-the-shortest-walk-length', _NODE % ("implies(And(v != source, color[v] != 0), And(distance[v] == " + (_D % 'v') + ", " + (_D % 'v') + " >= 1))")),
    ('DIST-undiscovered-nodes-are-infinite', _NODE % "implies(color[v] == 0, distance[v] == INF)"),
    ('QUEUE-holds-gray-nodes', "forall(lambda i: implies(And(i >= 0, i < len(Q)), And(inr(Q[i], n0), color[Q[i]] == 1)))"),
    ('QUEUE-holds-every-gray-node', _NODE % "implies(color[v] == 1, And(qp[v] >= 0, qp[v] < len(Q), Q[qp[v]] == v))"),
    ('QUEUE-positions-are-consistent', "forall(lambda i: implies(And(i >= 0, i < len(Q)), qp[Q[i]] == i))"),
    ('QUEUE-sorted-by-level', "forall(lambda i, j: implies(And(i >= 0, i < j, j < len(Q)), " + (_LEV % ('Q[i]', 'Q[i]')) + " <= " + (_LEV % ('Q[j]', 'Q[j]')) + "))"),
    ('QUEUE-spans-at-most-two-levels', "implies(len(Q) >= 1, " + (_LEV % ('Q[len(Q) - 1]', 'Q[len(Q) - 1]')) + " <= " + (_LEV % ('Q[0]', 'Q[0]')) + " + 1)"),
    ('CLOSED-black-nodes-have-no-undiscovered-neighbour', "forall(lambda v, w: implies(And(inr(v, n0), inr(w, n0), color[v] == 2, CIJ[v, w] != 0), color[w] != 0))"),
    ('FRONTIER-everything-up-to-the-head-level-is-discovered', "implies(len(Q) >= 1, " + (_NODE % ("implies(And(v != source, " + (_D % 'v') + " >= 1, " + (_D % 'v') + " <= " + (_LEV % ('Q[0]', 'Q[0]')) + "), color[v] != 0)")) + ")"),
]
CONTRACTS['breadth'] = Contract(
    MOD, 'breadth', ['CIJ', 'source'], setup=_setup_bfs,
    requires=[('source-is-a-node-without-self-loop', "And(inr(source, n0), CIJ[source, source] == 0)"), ('infinity-exceeds-any-hop-count', 'INF > n0')],
    loops={'while Q': {'name': 'queue', 'inv': _BFS_STATE, 'ghosts': ['qp']},
           'for v in ns': {'name': 'neighbours', 'ghosts': ['qp'], 'inv': _BFS_STATE[:-1] + [
               ('HEAD-is-being-processed', "And(len(Q) >= 1, Q[0] == u, inr(u, n0), lu == (0 if u == source else sdist(CIJ, source, u)))"),
               ('FRONTIER-everything-up-to-the-head-level-is-discovered', _NODE % ("implies(And(v != source, " + (_D % 'v') + " >= 1, " + (_D % 'v') + " <= " + (_LEV % ('u', 'u')) + "), color[v] != 0)")),
               ('NEIGHBOURS-done-are-discovered', "forall(lambda t: implies(And(t >= 0, t < _it), color[ns[t]] != 0))")]}},
    ghost_after={'n = len(CIJ)': "assume(lemma_walks(CIJ, n0))",
                 'Q = [source]': "qp = lam1(lambda w: 0, n0)",
                 'Q.append(*)': "qp = lam1(lambda w: (len(Q) - 1 if w == appended_value() else qp[w]), n0)",
                 'Q = Q[*]': "qp = lam1(lambda w: qp[w] - 1, n0)",
                 'color[u] = *': "assume(lemma_walks(CIJ, n0, lu)); "
                                     "check('once-the-head-moves-to-the-next-level-that-level-is-discovered', implies(And(len(Q) >= 1, " + (_LEV % ('Q[0]', 'Q[0]')) + " == lu + 1), " + (_NODE % ("implies(And(v != source, " + (_D % 'v') + " == lu + 1), color[v] != 0)")) + "))",
                 'while Q': "assume(lemma_reach_closed(CIJ, source, lam1(lambda v: color[v] != 0, n0), n0))"},
    ghost_before={'ns, = np.where(*': "lu = (0 if u == source else sdist(CIJ, source, u))",
                  'color[v] = gray': "check('head-level-is-its-distance', distance[u] == lu); "
                                     "check('new-node-is-reached-by-a-walk-through-the-head', walk(CIJ, source, v, lu + 1)); "
                                     "check('new-node-is-not-closer', " + (_D % 'v') + " >= lu + 1)"},
    ensures=[('distance-is-the-shortest-path-length', _NODE % ("implies(And(v != source, " + (_D % 'v') + " >= 1), result(0)[v] == " + (_D % 'v') + ")")),
             ('infinite-exactly-when-unreachable', _NODE % ("implies(v != source, iff(" + (_D % 'v') + " == 0, result(0)[v] == INF))")),
             ('argument-untouched', "unchanged('CIJ')")])


def _callee_breadth(eng, st, args, kw, node):
    """contract of breadth (proved above): requires become obligations at the call site; the two results are fresh arrays about which
    exactly the ensures are assumed (the second result, the BFS tree, is left unconstrained)."""
    from engine.pyvc.core import to_z3, sdist, TupleV, A1R, Ref
    ref = args[0] if isinstance(args[0], Ref) else eng.np.materialise(eng, st, args[0])
    o = st.heap[ref.oid]
    G = eng.pure(o.term)
    n = to_z3(o.shape[0], INT)
    s_ = to_z3(args[1], INT)
    INF = z3.Real('INF')
    eng.oblige(st, 'call[breadth]/requires/source-is-a-node-without-self-loop', z3.And(s_ >= 0, s_ < n, z3.Select(z3.Select(G, s_), s_) == 0))
    eng.oblige(st, 'call[breadth]/requires/infinity-exceeds-any-hop-count', INF > z3.ToReal(n))
    dist = fresh('bfsdist', A1R)
    v = z3.Int('v!bf')
    sd = sdist(G, s_, v)
    st.pc.append(z3.ForAll([v], z3.Implies(z3.And(v >= 0, v < n, v != s_), z3.And(z3.Implies(sd >= 1, z3.Select(dist, v) == z3.ToReal(sd)), (sd == 0) == (z3.Select(dist, v) == INF))), patterns=[z3.Select(dist, v)]))
    return TupleV((alloc(st, 1, dist, (o.shape[0],), REAL), alloc(st, 1, fresh('bfstree', A1R), (o.shape[0],), REAL)))


def _setup_bd(eng, st):
    n = z3.Int('n0c')
    st.pc.append(n >= 1)
    st.ghost['n0'] = n
    st.env['CIJ'] = alloc(st, 2, z3.Const('C0', A2R), (n, n), REAL)


_PAIR = "forall(lambda a, b: implies(And(inr(a, n0), inr(b, n0), a != b), %s))"
CONTRACTS['breadthdist'] = Contract(
    MOD, 'breadthdist', ['CIJ'], setup=_setup_bd,
    requires=[('no-self-loops', "forall(lambda a: implies(inr(a, n0), CIJ[a, a] == 0))"), ('infinity-exceeds-any-hop-count', 'INF > n0')],
    loops={'for i in range(n)': {'name': 'sources', 'inv': [
        ('ROWS-done', "forall(lambda a, b: implies(And(inr(a, n0), inr(b, n0), a != b, a < _it), And(implies(sdist(CIJ, a, b) >= 1, D[a, b] == sdist(CIJ, a, b)), iff(sdist(CIJ, a, b) == 0, D[a, b] == INF))))"),
        ('FRAME', "And(n == n0, unchanged('CIJ'))")]}},
    ghost_after={'n = len(CIJ)': "assume(lemma_walks(CIJ, n0))"},
    ensures=[('distance-is-the-shortest-path-length', _PAIR % "implies(sdist(CIJ, a, b) >= 1, result(1)[a, b] == sdist(CIJ, a, b))"),
             ('infinite-exactly-when-unreachable', _PAIR % "iff(sdist(CIJ, a, b) == 0, result(1)[a, b] == INF)"),
             ('reachability-flag-is-true-exactly-for-finite-distances', _PAIR % "iff(result(0)[a, b], result(1)[a, b] != INF)"),
             ('argument-untouched', "unchanged('CIJ')")])
CONTRACTS['breadthdist'].callees = {'breadth': _callee_breadth}


# ---- reachdist (C03): reachability and distance by accumulated matrix powers, with a RECURSIVE nested helper ------------------------------
# reachdist2 calls itself; it is verified against its own contract (modular recursion, partial correctness): at the recursive call the
# requires are obligations and the ensures are assumed.  Invariant carried by the contract: after accumulating the powers 1..p
#   R[x,y] != 0  <->  1 <= sdist(x,y) <= p        D[x,y] == p - sdist(x,y) + 1 if 1 <= sdist(x,y) <= p else 0
# so that `powr - D + 1` is the distance for reached pairs and powr + 1 (== n + 2 at the depth limit) for the others.
_RC = "forall(lambda x, y: implies(And(inr(x, n0), inr(y, n0)), %s))"
_R2_REQ = [
    ('binary-network', _RC % "Or(CIJ[x, y] == 0, CIJ[x, y] == 1)"),
    ('sizes', "And(n == n0, n0 >= 1, powr >= 2, powr <= n0 + 1, INF > n0 + 2)"),
    ('CIJpwr-nonnegative', _RC % "CIJpwr[x, y] >= 0"),
    ('CIJpwr-nonzero-only-for-walks-of-the-previous-length', "forall(lambda x, y: implies(And(inr(x, n0), inr(y, n0), CIJpwr[x, y] != 0), walk(CIJ, x, y, powr - 1)), pattern=CIJpwr[x, y])"),
    ('CIJpwr-nonzero-for-every-walk-of-the-previous-length', "forall(lambda x, y: implies(And(inr(x, n0), inr(y, n0), walk(CIJ, x, y, powr - 1)), CIJpwr[x, y] != 0), pattern=walk(CIJ, x, y, powr - 1))"),
    ('R-marks-the-pairs-within-the-previous-powers', _RC % "iff(R[x, y] != 0, And(sdist(CIJ, x, y) >= 1, sdist(CIJ, x, y) <= powr - 1))"),
    ('D-counts-the-powers-at-which-the-pair-was-reachable', _RC % "D[x, y] == (powr - sdist(CIJ, x, y) if And(sdist(CIJ, x, y) >= 1, sdist(CIJ, x, y) <= powr - 1) else 0)"),
    ('index-vectors-in-range', "And(forall(lambda t: implies(And(t >= 0, t < len(row)), inr(row[t], n0))), forall(lambda t: implies(And(t >= 0, t < len(col)), inr(col[t], n0))))"),
]
_R2_ENS = [
    ('depth', "And(result(2) >= powr, result(2) <= n0 + 1)"),
    ('R-marks-the-pairs-within-the-accumulated-powers', _RC % "iff(result(0)[x, y], And(sdist(CIJ, x, y) >= 1, sdist(CIJ, x, y) <= result(2)))"),
    ('D-counts-the-powers-at-which-the-pair-was-reachable', _RC % "result(1)[x, y] == (result(2) - sdist(CIJ, x, y) + 1 if And(sdist(CIJ, x, y) >= 1, sdist(CIJ, x, y) <= result(2)) else 0)"),
    ('stops-at-the-depth-limit-or-when-every-selected-pair-is-reached',
     "Or(result(2) > n0, forall(lambda t, u: implies(And(t >= 0, t < len(row), u >= 0, u < len(col)), result(0)[row[t], col[u]])))"),
]


def _setup_r2(eng, st):
    n = z3.Int('n0c')
    st.pc.append(n >= 1)
    st.ghost['n0'] = n
    for nm in ('CIJ', 'CIJpwr', 'R', 'D'):
        st.env[nm] = alloc(st, 2, z3.Const(nm + '_in', A2R), (n, n), REAL)
    st.env['n'] = z3.Int('n_arg')
    st.env['powr'] = z3.Int('pm') + 1          # powr = pm + 1: the walk lemmas are triggered by lengths of the syntactic form m + 1
    st.env['col'] = alloc(st, 1, z3.Const('col_in', A1I), (z3.Int('kc'),), INT)
    st.env['row'] = alloc(st, 1, z3.Const('row_in', A1I), (z3.Int('kr'),), INT)
    st.pc += [z3.Int('kc') >= 0, z3.Int('kr') >= 0]


def _r2_callee():
    from engine.pyvc.run import callee_from_clauses
    return callee_from_clauses('reachdist2', ['CIJ', 'CIJpwr', 'R', 'D', 'n', 'powr', 'col', 'row'], _R2_REQ, _R2_ENS,
                               [('bmat', 'n', 'n'), ('mat', 'n', 'n'), ('int',)], ghosts={'n0': 'n'})


CONTRACTS['reachdist.reachdist2'] = Contract(
    MOD, 'reachdist.reachdist2', ['CIJ', 'CIJpwr', 'R', 'D', 'n', 'powr', 'col', 'row'], setup=_setup_r2, dot_support=True, key='reachdist.reachdist2',
    requires=_R2_REQ, ensures=_R2_ENS,
    ghost_before={'CIJpwr = np.dot(*': "assume(lemma_walks(CIJ, n0))"},
    ghost_after={'CIJpwr = np.dot(*': "check('new-power-nonzero-only-for-walks', forall(lambda x, y: implies(And(inr(x, n0), inr(y, n0), CIJpwr[x, y] != 0), walk(CIJ, x, y, powr)), pattern=CIJpwr[x, y])); "
                                                 "check('new-power-nonzero-for-every-walk', forall(lambda x, y: implies(And(inr(x, n0), inr(y, n0), walk(CIJ, x, y, powr)), CIJpwr[x, y] != 0), pattern=walk(CIJ, x, y, powr)))",
                 'R = *': "check('R-marks-the-pairs-within-powr', " + (_RC % "iff(R[x, y], And(sdist(CIJ, x, y) >= 1, sdist(CIJ, x, y) <= powr))") + ")",
                 'D += *': "check('D-counts-up-to-powr', " + (_RC % "D[x, y] == (powr - sdist(CIJ, x, y) + 1 if And(sdist(CIJ, x, y) >= 1, sdist(CIJ, x, y) <= powr) else 0)") + ")"})
CONTRACTS['reachdist.reachdist2'].callees = {'reachdist2': _r2_callee()}


def _setup_rd(eng, st):
    n = z3.Int('n0c')
    st.pc.append(n >= 1)
    st.ghost['n0'] = n
    st.env['CIJ'] = alloc(st, 2, z3.Const('C0', A2R), (n, n), REAL)
    st.env['ensure_binary'] = True


CONTRACTS['reachdist'] = Contract(
    MOD, 'reachdist', ['CIJ', 'ensure_binary'], setup=_setup_rd,
    requires=[('infinity-exceeds-any-hop-count', 'INF > n0 + 2')],
    ghost_after={'n = len(CIJ)': "assume(lemma_walks(CIJ, n0), lemma_nonneg_sum_zero(CIJ, n0), lemma_walk_ends(CIJ, n0)); "
                                 "check('connections-are-walks-of-one-connection', " + (_RC % "implies(CIJ[x, y] != 0, walk(CIJ, x, y, 1))") + "); "
                                 "check('walks-of-one-connection-are-shortest', forall(lambda x, y: implies(And(inr(x, n0), inr(y, n0), walk(CIJ, x, y, 1)), sdist(CIJ, x, y) == 1), pattern=walk(CIJ, x, y, 1))); "
                                 "check('distance-one-means-connected', " + (_RC % "implies(sdist(CIJ, x, y) == 1, CIJ[x, y] != 0)") + ")"},
    ghost_before={'D = powr*': "assume(lemma_sdist_support(CIJ, arg('CIJ'), n0)); check('a-node-without-outgoing-connections-reaches-nothing', forall(lambda x, y: implies(And(inr(x, n0), inr(y, n0), od[x] == 0), sdist(CIJ, x, y) == 0))); "
                                      "check('a-node-without-incoming-connections-is-reached-by-nothing', forall(lambda x, y: implies(And(inr(x, n0), inr(y, n0), id[y] == 0), sdist(CIJ, x, y) == 0))); "
                                      "check('every-node-with-an-outgoing-connection-is-selected', forall(lambda x: implies(And(inr(x, n0), od[x] != 0), And(where_index1(row, x) >= 0, where_index1(row, x) < len(row), row[where_index1(row, x)] == x)))); "
                                      "check('every-node-with-an-incoming-connection-is-selected', forall(lambda y: implies(And(inr(y, n0), id[y] != 0), And(where_index1(col, y) >= 0, where_index1(col, y) < len(col), col[where_index1(col, y)] == y)))); "
                                      "check('every-reachable-pair-is-within-the-accumulated-powers', " + (_PAIR % "implies(sdist(CIJ, a, b) >= 1, sdist(CIJ, a, b) <= powr)") + ")",
                  'return (R, D)': "check('a-node-without-outgoing-connections-reaches-nothing-2', forall(lambda x, y: implies(And(inr(x, n0), inr(y, n0), od[x] == 0), sdist(CIJ, x, y) == 0))); "
                                   "check('a-node-without-incoming-connections-is-reached-by-nothing', forall(lambda x, y: implies(And(inr(x, n0), inr(y, n0), id[y] == 0), sdist(CIJ, x, y) == 0)))"},
    ensures=[('network-is-the-binarised-argument', "forall(lambda x, y: implies(And(inr(x, n0), inr(y, n0)), CIJ[x, y] == (1 if arg('CIJ')[x, y] != 0 else 0)))"),
             ('hop-distances-of-the-binarised-copy-are-those-of-the-argument', "forall(lambda x, y: implies(And(inr(x, n0), inr(y, n0)), sdist(CIJ, x, y) == sdist(arg('CIJ'), x, y)))"),
             ('distance-is-the-shortest-path-length', _PAIR % "implies(sdist(CIJ, a, b) >= 1, result(1)[a, b] == sdist(CIJ, a, b))"),
             ('infinite-exactly-when-unreachable', _PAIR % "iff(sdist(CIJ, a, b) == 0, result(1)[a, b] == INF)"),
             ('reachability-flag-is-true-exactly-for-finite-distances', _PAIR % "iff(result(0)[a, b], result(1)[a, b] != INF)"),
             ('argument-untouched', "unchanged('CIJ')")])
CONTRACTS['reachdist'].callees = {'reachdist2': _r2_callee()}
