"""Sidecar contracts for bct/algorithms/reference.py (rewiring family: C01, C06, C11).  Nothing here is code of bctpy.

Clause language: Python expressions evaluated by the symbolic executor in the state at the program point they are attached to
(program variables by name; `arg('R')` = parameter R's contents at entry; forall/implies/inr and the spec functions of
engine/pyvc/core.py: rcnt/ccnt (row/column count of nonzeros = out/in degree), rsum (out-strength), totF (sum of F(w) over
all cells, F arbitrary with F(0)=0: equality for arbitrary F is equality of the multisets of weights), dot2 (sum D*R)).
"""
import z3
from engine.pyvc.core import Contract, Opaque, alloc, fresh, A2R, A1I, INT, REAL, BOOL

MODULE = 'bct.algorithms.reference'


def _setup_R(extra=None, sym=False, mask=False):
    def setup(eng, st):
        n = z3.Int('n')
        st.pc.append(n >= 2)
        st.env['R' if not mask else 'A'] = alloc(st, 2, z3.Const('R0', A2R), (n, n), REAL)
        st.ghost['n0'] = n
        if mask:
            st.env['B'] = alloc(st, 2, z3.Const('B0', A2R), (n, n), REAL)
            st.env['maxswap'] = z3.Real('maxswap')
        else:
            st.env['itr'] = z3.Real('itr') if not (extra and extra.get('int_itr')) else z3.Int('itr')
        st.env['seed'] = Opaque('seed')
        if extra and extra.get('D'):
            # D is None or a caller-supplied n x n matrix
            isnone = z3.Bool('D_is_None')
            dc = alloc(st, 2, z3.Const('D0', A2R), (n, n), REAL)
            st.env['D'] = Opaque('maybe_none', isnone=isnone, value=dc)
            st.ghost['D_is_None'] = isnone
            st.ghost['Dcaller'] = dc
    return setup


# --- requires (documented domain) ------------------------------------------------------------------------------------
REQ_COMMON = [
    ('finite-square', 'True'),
    ('empty-diagonal', "forall(lambda x: implies(inr(x, n0), R[x, x] == 0))"),
]
REQ_SYM = [('undirected', "forall(lambda x, y: implies(And(inr(x, n0), inr(y, n0)), R[x, y] == R[y, x]))")]
REQ_ITR = [('itr-nonneg', 'itr >= 0')]

# --- invariants of the rewiring loops -----------------------------------------------------------------------------------
# undirected form (edge list holds one orientation of every listed pair)
INV_UND = [
    ('shape', 'And(n == n0, k >= 0)'),
    ('I1-edge-list-names-present-edges', "forall(lambda e: implies(inr(e, k), And(inr(i[e], n), inr(j[e], n), R[i[e], j[e]] != 0)))"),
    ('I2-edge-list-entries-distinct', "forall(lambda e, f: implies(And(inr(e, k), inr(f, k), e != f), And(Or(i[e] != i[f], j[e] != j[f]), Or(i[e] != j[f], j[e] != i[f]))))"),
    ('I4-no-self-connection', "forall(lambda x: implies(inr(x, n), R[x, x] == 0))"),
    ('SYM-symmetric', "forall(lambda x, y: implies(And(inr(x, n), inr(y, n)), R[x, y] == R[y, x]))"),
    ('D1-degree', "forall(lambda x: implies(inr(x, n), And(rcnt(R, x, n) == rcnt(arg('R'), x, n), ccnt(R, x, n) == ccnt(arg('R'), x, n))))"),
    ('W1-weight-multiset', "totF(R, n) == totF(arg('R'), n)"),
    ('Z-eff-zero-identity', "And(eff >= 0, implies(eff == 0, forall(lambda x, y: implies(And(inr(x, n), inr(y, n)), R[x, y] == arg('R')[x, y]))))"),
    ('FRAME-argument-untouched', "unchanged('R')"),
]
INV_DIR = [
    ('shape', 'And(n == n0, k >= 0)'),
    ('I1-edge-list-names-present-edges', "forall(lambda e: implies(inr(e, k), And(inr(i[e], n), inr(j[e], n), R[i[e], j[e]] != 0)))"),
    ('I2-edge-list-entries-distinct', "forall(lambda e, f: implies(And(inr(e, k), inr(f, k), e != f), Or(i[e] != i[f], j[e] != j[f])))"),
    ('I4-no-self-connection', "forall(lambda x: implies(inr(x, n), R[x, x] == 0))"),
    ('D1-out-degree', "forall(lambda x: implies(inr(x, n), rcnt(R, x, n) == rcnt(arg('R'), x, n)))"),
    ('D2-in-degree', "forall(lambda x: implies(inr(x, n), ccnt(R, x, n) == ccnt(arg('R'), x, n)))"),
    ('W1-weight-multiset', "totF(R, n) == totF(arg('R'), n)"),
    ('W2-out-strength', "forall(lambda x: implies(inr(x, n), rsum(R, x, n) == rsum(arg('R'), x, n)))"),
    ('Z-eff-zero-identity', "And(eff >= 0, implies(eff == 0, forall(lambda x, y: implies(And(inr(x, n), inr(y, n)), R[x, y] == arg('R')[x, y]))))"),
    ('FRAME-argument-untouched', "unchanged('R')"),
]


def _inner(inv):
    """the inner selection loops write only scalars; they carry the same invariant plus ranges of the chosen indices."""
    return inv


ENS_UND = [
    ('every-node-keeps-its-degree', "forall(lambda x: implies(inr(x, n0), And(rcnt(result(0), x, n0) == rcnt(arg('R'), x, n0), ccnt(result(0), x, n0) == ccnt(arg('R'), x, n0))))"),
    ('same-multiset-of-weights', "totF(result(0), n0) == totF(arg('R'), n0)"),
    ('no-new-self-connection', "forall(lambda x: implies(inr(x, n0), result(0)[x, x] == 0))"),
    ('symmetric', "forall(lambda x, y: implies(And(inr(x, n0), inr(y, n0)), result(0)[x, y] == result(0)[y, x]))"),
    ('zero-rewirings-reported-identity', "implies(result(1) == 0, forall(lambda x, y: implies(And(inr(x, n0), inr(y, n0)), result(0)[x, y] == arg('R')[x, y])))"),
    ('zero-rewirings-requested-identity', "implies(int(arg('itr') * k) <= 0, forall(lambda x, y: implies(And(inr(x, n0), inr(y, n0)), result(0)[x, y] == arg('R')[x, y])))"),
    ('argument-untouched', "unchanged('R')"),
]

LOOPS_UND = {
    'for it in range(int(itr))': {'name': 'outer', 'inv': INV_UND},
    'while att <= max_attempts': {'name': 'attempts', 'inv': INV_UND},
    'while True': {'name': 'pick', 'inv': INV_UND},
    'while e1 == e2': {'name': 'redraw', 'inv': INV_UND + [('e1-in-range', 'inr(e1, k)'), ('e2-in-range', 'inr(e2, k)')]},
}

CONTRACTS = {}
CONTRACTS['randmio_und'] = Contract(
    MODULE, 'randmio_und', ['R', 'itr', 'seed'], setup=_setup_R(),
    requires=REQ_COMMON + REQ_SYM + REQ_ITR, ensures=ENS_UND, loops=LOOPS_UND,
    notes='C01 for randmio_und: whole function under contract; np.round only feeds the attempt bound (specified as nearest integer).')



ENS_DIR = [
    ('every-node-keeps-its-out-degree', "forall(lambda x: implies(inr(x, n0), rcnt(result(0), x, n0) == rcnt(arg('R'), x, n0)))"),
    ('every-node-keeps-its-in-degree', "forall(lambda x: implies(inr(x, n0), ccnt(result(0), x, n0) == ccnt(arg('R'), x, n0)))"),
    ('same-multiset-of-weights', "totF(result(0), n0) == totF(arg('R'), n0)"),
    ('out-strength-kept', "forall(lambda x: implies(inr(x, n0), rsum(result(0), x, n0) == rsum(arg('R'), x, n0)))"),
    ('no-new-self-connection', "forall(lambda x: implies(inr(x, n0), result(0)[x, x] == 0))"),
    ('zero-rewirings-reported-identity', "implies(result(1) == 0, forall(lambda x, y: implies(And(inr(x, n0), inr(y, n0)), result(0)[x, y] == arg('R')[x, y])))"),
    ('zero-rewirings-requested-identity', "implies(int(arg('itr') * k) <= 0, forall(lambda x, y: implies(And(inr(x, n0), inr(y, n0)), result(0)[x, y] == arg('R')[x, y])))"),
    ('argument-untouched', "unchanged('R')"),
]


def loops(inv, outer='for it in range(int(itr))'):
    return {
        outer: {'name': 'outer', 'inv': inv},
        'while att <= max_attempts': {'name': 'attempts', 'inv': inv},
        'while True': {'name': 'pick', 'inv': inv},
        'while e1 == e2': {'name': 'redraw', 'inv': inv + [('e1-in-range', 'inr(e1, k)'), ('e2-in-range', 'inr(e2, k)')]},
    }


CONTRACTS['randmio_dir'] = Contract(
    MODULE, 'randmio_dir', ['R', 'itr', 'seed'], setup=_setup_R(),
    requires=REQ_COMMON + REQ_ITR, ensures=ENS_DIR, loops=loops(INV_DIR))

# connectivity test of the *_connected variants: for C01 its only effect is the boolean `rewire`; it works on fresh copies
# (R[(a, c), :].copy(), P.copy()), which the frame obligation of the abstraction checks syntactically.
ABS_CONN_DIR = {"if not (np.any((R[a, c], R[d, b], R[d, c])) and np.any((R[c, a], R[b, d], R[b, a])))":
                {'protects': ['R', 'i', 'j', 'eff', 'k', 'n', 'a', 'b', 'c', 'd', 'e1', 'e2', 'att', 'itr', 'max_attempts'], 'sorts': {'rewire': 'bool'}}}
ABS_CONN_UND = {"if not (R[a, c] or R[b, d])":
                {'protects': ['R', 'i', 'j', 'eff', 'k', 'n', 'a', 'b', 'c', 'd', 'e1', 'e2', 'att', 'itr', 'max_attempts'], 'sorts': {'rewire': 'bool'}}}

CONTRACTS['randmio_dir_connected'] = Contract(
    MODULE, 'randmio_dir_connected', ['R', 'itr', 'seed'], setup=_setup_R(),
    requires=REQ_COMMON + REQ_ITR, ensures=ENS_DIR, loops=loops(INV_DIR), abstract=ABS_CONN_DIR,
    notes='connectivity block abstracted to an arbitrary boolean `rewire` (C11 connectivity clause is bounded-only)')

CONTRACTS['randmio_und_connected'] = Contract(
    MODULE, 'randmio_und_connected', ['R', 'itr', 'seed'], setup=_setup_R(),
    requires=REQ_COMMON + REQ_SYM + REQ_ITR, ensures=ENS_UND, loops=loops(INV_UND), abstract=ABS_CONN_UND)

# C11, input rejection: the prefix of the function up to the first use of the generator, for ARBITRARY input (no requires):
# execution gets past the two checks only if np.allclose(R, R.T) held and number_of_components(R) <= 1; every other path
# raised BCTParamError.
REJECT_ENS = [('accepted-only-if-allclose-symmetric', 'allclose_last'), ('accepted-only-if-one-component', 'ncomp_last <= 1')]
REJECT_RAISES = [('rejection-is-BCTParamError', "raised('BCTParamError')")]
CONTRACTS['randmio_und_connected#reject'] = Contract(
    MODULE, 'randmio_und_connected', ['R', 'itr', 'seed'], setup=_setup_R(), key='randmio_und_connected#reject',
    requires=[], ensures=REJECT_ENS, ensures_raises=REJECT_RAISES, stop_at='rng = get_rng(seed)')


# ---- latticisers -------------------------------------------------------------------------------------------------------------
def _sub(inv, ref):
    return [(nm, src.replace("arg('R')", ref)) for nm, src in inv]


LATT_COST = [('LATT-cost-nonincreasing', "dot2(D, R, n) <= dot2(D, Rp0, n)")]
INV_LATT_UND = _sub(INV_UND, 'Rp0') + LATT_COST + [('D-symmetric', "forall(lambda x, y: implies(And(inr(x, n), inr(y, n)), D[x, y] == D[y, x]))")]
INV_LATT_DIR = _sub(INV_DIR, 'Rp0') + LATT_COST

ABS_D = {"if D is None": {'protects': ['R', 'ind_rp', 'n', 'itr', 'rng'], 'sorts': {'D': 'mat:n'},
                          'allow_store': {'D': True},
                          'assume': ["implies(not D_is_None, forall(lambda x, y: D[x, y] == Dcaller[x, y]))"]}}
ABS_D_UND = {"if D is None": dict(ABS_D["if D is None"], assume=ABS_D["if D is None"]['assume'] + [
    # default D (distance to the diagonal with wrap-around) is symmetric: ASSUMED here, checked by the bounded tier only
    "implies(D_is_None, forall(lambda x, y: D[x, y] == D[y, x]))"])}
GHOST_LATT = {"R = R[np.ix_(ind_rp, ind_rp)]": "Rp0 = snapshot(R)"}

ENS_LATT_COMMON = [
    ('L1-Rrp-is-Rlatt-reindexed-by-ordering', "forall(lambda x, y: implies(And(inr(x, n0), inr(y, n0)), result(0)[result(2)[x], result(2)[y]] == result(1)[x, y]))"),
    ('ordering-is-a-permutation', "isperm(result(2), n0)"),
    ('same-multiset-of-weights', "totF(result(0), n0) == totF(arg('R'), n0)"),
    ('no-new-self-connection', "forall(lambda x: implies(inr(x, n0), result(0)[x, x] == 0))"),
    ('zero-rewirings-reported-identity', "implies(result(3) == 0, forall(lambda x, y: implies(And(inr(x, n0), inr(y, n0)), result(0)[x, y] == arg('R')[x, y])))"),
    ('zero-rewirings-requested-identity', "implies(arg('itr') * k <= 0, forall(lambda x, y: implies(And(inr(x, n0), inr(y, n0)), result(0)[x, y] == arg('R')[x, y])))"),
    ('LATT-cost-nonincreasing', "dot2(D, result(1), n0) <= dot2(D, Rp0, n0)"),
    ('argument-untouched', "unchanged('R')"),
]
ENS_LATT_UND = ENS_LATT_COMMON + [
    ('every-node-keeps-its-degree-in-callers-numbering', "forall(lambda x: implies(inr(x, n0), And(rcnt(result(0), x, n0) == rcnt(arg('R'), x, n0), ccnt(result(0), x, n0) == ccnt(arg('R'), x, n0))))"),
    ('symmetric', "forall(lambda x, y: implies(And(inr(x, n0), inr(y, n0)), result(0)[x, y] == result(0)[y, x]))"),
]
ENS_LATT_DIR = ENS_LATT_COMMON + [
    ('every-node-keeps-its-out-degree-in-callers-numbering', "forall(lambda x: implies(inr(x, n0), rcnt(result(0), x, n0) == rcnt(arg('R'), x, n0)))"),
    ('every-node-keeps-its-in-degree-in-callers-numbering', "forall(lambda x: implies(inr(x, n0), ccnt(result(0), x, n0) == ccnt(arg('R'), x, n0)))"),
    ('out-strength-kept', "forall(lambda x: implies(inr(x, n0), rsum(result(0), x, n0) == rsum(arg('R'), x, n0)))"),
]
REQ_D_SYM = [('caller-D-symmetric', "implies(not D_is_None, forall(lambda x, y: implies(And(inr(x, n0), inr(y, n0)), Dcaller[x, y] == Dcaller[y, x])))")]
REQ_ITR_INT = [('itr-nonneg', 'itr >= 0')]
LS = _setup_R({'D': True, 'int_itr': True})

CONTRACTS['latmio_und'] = Contract(MODULE, 'latmio_und', ['R', 'itr', 'D', 'seed'], setup=LS, nonlinear='uf', requires=REQ_COMMON + REQ_SYM + REQ_ITR_INT + REQ_D_SYM,
                                   ensures=ENS_LATT_UND, loops=loops(INV_LATT_UND, 'for it in range(itr)'), abstract=ABS_D_UND, ghost_after=GHOST_LATT)
CONTRACTS['latmio_dir'] = Contract(MODULE, 'latmio_dir', ['R', 'itr', 'D', 'seed'], setup=LS, nonlinear='uf', requires=REQ_COMMON + REQ_ITR_INT,
                                   ensures=ENS_LATT_DIR, loops=loops(INV_LATT_DIR, 'for it in range(itr)'), abstract=ABS_D, ghost_after=GHOST_LATT)
CONTRACTS['latmio_und_connected'] = Contract(MODULE, 'latmio_und_connected', ['R', 'itr', 'D', 'seed'], setup=LS, nonlinear='uf', requires=REQ_COMMON + REQ_SYM + REQ_ITR_INT + REQ_D_SYM,
                                             ensures=ENS_LATT_UND, loops=loops(INV_LATT_UND, 'for it in range(itr)'), abstract=dict(ABS_D_UND, **ABS_CONN_UND), ghost_after=GHOST_LATT)
CONTRACTS['latmio_dir_connected'] = Contract(MODULE, 'latmio_dir_connected', ['R', 'itr', 'D', 'seed'], setup=LS, nonlinear='uf', requires=REQ_COMMON + REQ_ITR_INT,
                                             ensures=ENS_LATT_DIR, loops=loops(INV_LATT_DIR, 'for it in range(itr)'), abstract=dict(ABS_D, **ABS_CONN_DIR), ghost_after=GHOST_LATT)
CONTRACTS['latmio_und_connected#reject'] = Contract(
    MODULE, 'latmio_und_connected', ['R', 'itr', 'D', 'seed'], setup=LS, key='latmio_und_connected#reject',
    requires=[], ensures=REJECT_ENS, ensures_raises=REJECT_RAISES, stop_at='n = len(R)')


# ---- randomize_graph_partial_und (C01 + C11 mask clause) ------------------------------------------------------------------------
def _ren(inv, m):
    out = []
    for nm, src in inv:
        for a, b in m:
            src = src.replace(a, b)
        out.append((nm, src))
    return out


REN_PARTIAL = [("arg('R')", "arg('A')"), ('R[', 'A['), ('(R,', '(A,'), ("unchanged('R')", "unchanged('A')"), ('k >= 0', 'm >= 0'), ('inr(e, k)', 'inr(e, m)'),
               ('inr(f, k)', 'inr(f, m)'), ('eff', 'nswap'), ('n == n0', 'True')]
INV_PARTIAL = [(nm, src.replace(', n)', ', n0)').replace('inr(x, n)', 'inr(x, n0)').replace('inr(y, n)', 'inr(y, n0)').replace('inr(i[e], n)', 'inr(i[e], n0)').replace('inr(j[e], n)', 'inr(j[e], n0)'))
               for nm, src in _ren(INV_UND, REN_PARTIAL)] + [
    ('MASK-no-connection-in-masked-cell', "forall(lambda x, y: implies(And(inr(x, n0), inr(y, n0), A[x, y] != 0, arg('A')[x, y] == 0), B[x, y] == 0))"),
    ('FRAME-mask-untouched', "unchanged('B')"),
    ('Z2-nothing-requested-nothing-done', 'implies(maxswap <= 0, nswap == 0)'),
]
ENS_PARTIAL = [(nm, src.replace('result(0)', 'result()')) for nm, src in _ren([e for e in ENS_UND if 'result(1)' not in e[1] and 'itr' not in e[1]], [("arg('R')", "arg('A')"), ("unchanged('R')", "unchanged('A')")])] + [
    ('zero-rewirings-requested-identity', "implies(maxswap <= 0, forall(lambda x, y: implies(And(inr(x, n0), inr(y, n0)), result()[x, y] == arg('A')[x, y])))"),
    ('MASK-no-connection-in-masked-cell', "forall(lambda x, y: implies(And(inr(x, n0), inr(y, n0), result()[x, y] != 0, arg('A')[x, y] == 0), B[x, y] == 0))"),
    ('mask-untouched', "unchanged('B')"),
]
REQ_PARTIAL = [('empty-diagonal', "forall(lambda x: implies(inr(x, n0), A[x, x] == 0))"),
               ('undirected', "forall(lambda x, y: implies(And(inr(x, n0), inr(y, n0)), A[x, y] == A[y, x]))"),
               ('mask-symmetric', "forall(lambda x, y: implies(And(inr(x, n0), inr(y, n0)), B[x, y] == B[y, x]))")]
CONTRACTS['randomize_graph_partial_und'] = Contract(
    MODULE, 'randomize_graph_partial_und', ['A', 'B', 'maxswap', 'seed'], setup=_setup_R(mask=True), requires=REQ_PARTIAL, ensures=ENS_PARTIAL,
    loops={'while nswap < maxswap': {'name': 'outer', 'inv': INV_PARTIAL}, 'while True': {'name': 'pick', 'inv': INV_PARTIAL},
           'while e1 == e2': {'name': 'redraw', 'inv': INV_PARTIAL + [('e1-in-range', 'inr(e1, m)'), ('e2-in-range', 'inr(e2, m)')]}})

# ---- signed rewirers (C06) ----------------------------------------------------------------------------------------------------------
INV_SIGNED_DIR = [
    ('shape', 'n == n0'),
    ('DIAG-untouched', "forall(lambda x: implies(inr(x, n), R[x, x] == arg('R')[x, x]))"),
    ('POS-out-degree', "forall(lambda x: implies(inr(x, n), rpos(R, x, n) == rpos(arg('R'), x, n)))"),
    ('NEG-out-degree', "forall(lambda x: implies(inr(x, n), rneg(R, x, n) == rneg(arg('R'), x, n)))"),
    ('POS-in-degree', "forall(lambda x: implies(inr(x, n), cpos(R, x, n) == cpos(arg('R'), x, n)))"),
    ('NEG-in-degree', "forall(lambda x: implies(inr(x, n), cneg(R, x, n) == cneg(arg('R'), x, n)))"),
    ('POS-weight-multiset', "totFp(R, n) == totFp(arg('R'), n)"),
    ('NEG-weight-multiset', "totFn(R, n) == totFn(arg('R'), n)"),
    ('Z-eff-zero-identity', "And(eff >= 0, implies(eff == 0, forall(lambda x, y: implies(And(inr(x, n), inr(y, n)), R[x, y] == arg('R')[x, y]))))"),
    ('FRAME-argument-untouched', "unchanged('R')"),
]
INV_SIGNED_UND = INV_SIGNED_DIR + [('SYM-symmetric', "forall(lambda x, y: implies(And(inr(x, n), inr(y, n)), R[x, y] == R[y, x]))")]
ENS_SIGNED_DIR = [
    ('positive-out-degree-kept', "forall(lambda x: implies(inr(x, n0), rpos(result(0), x, n0) == rpos(arg('R'), x, n0)))"),
    ('negative-out-degree-kept', "forall(lambda x: implies(inr(x, n0), rneg(result(0), x, n0) == rneg(arg('R'), x, n0)))"),
    ('positive-in-degree-kept', "forall(lambda x: implies(inr(x, n0), cpos(result(0), x, n0) == cpos(arg('R'), x, n0)))"),
    ('negative-in-degree-kept', "forall(lambda x: implies(inr(x, n0), cneg(result(0), x, n0) == cneg(arg('R'), x, n0)))"),
    ('positive-weight-multiset-kept', "totFp(result(0), n0) == totFp(arg('R'), n0)"),
    ('negative-weight-multiset-kept', "totFn(result(0), n0) == totFn(arg('R'), n0)"),
    ('diagonal-empty', "forall(lambda x: implies(inr(x, n0), result(0)[x, x] == 0))"),
    ('zero-rewirings-reported-identity', "implies(result(1) == 0, forall(lambda x, y: implies(And(inr(x, n0), inr(y, n0)), result(0)[x, y] == arg('R')[x, y])))"),
    ('argument-untouched', "unchanged('R')"),
]
ENS_SIGNED_UND = ENS_SIGNED_DIR + [('symmetric', "forall(lambda x, y: implies(And(inr(x, n0), inr(y, n0)), result(0)[x, y] == result(0)[y, x]))")]
LOOPS_SIGNED = lambda inv: {'for it in range(int(itr))': {'name': 'outer', 'inv': inv}, 'while att <= max_attempts': {'name': 'attempts', 'inv': inv}}
CONTRACTS['randmio_dir_signed'] = Contract(MODULE, 'randmio_dir_signed', ['R', 'itr', 'seed'], setup=_setup_R(), requires=REQ_COMMON + REQ_ITR,
                                           ensures=ENS_SIGNED_DIR, loops=LOOPS_SIGNED(INV_SIGNED_DIR))
CONTRACTS['randmio_und_signed'] = Contract(MODULE, 'randmio_und_signed', ['R', 'itr', 'seed'], setup=_setup_R(), requires=REQ_COMMON + REQ_SYM + REQ_ITR,
                                           ensures=ENS_SIGNED_UND, loops=LOOPS_SIGNED(INV_SIGNED_UND))
