"""Sidecar contract for distance_wei_floyd (C03), transform=None: the Floyd-Warshall iteration, vectorised.  Only the matrix of shortest-path
lengths SPL is specified; the hop-count and next-node matrices (hops, Pmat) are left unconstrained (their statements are abstracted: havoc with a
syntactic frame obligation).  The invariant sandwiches SPL: every finite entry is at least the distance wd (it is the length of some walk), and
no walk whose intermediate nodes are below the pivot counter k is shorter than the entry (swalk, DESIGN 12.3)."""
import z3
from engine.pyvc.core import Contract, alloc, A2R, REAL

MOD = 'bct.algorithms.distance'
CONTRACTS = {}


def _setup(eng, st):
    n = z3.Int('n0c')
    st.pc.append(n >= 1)
    st.ghost['n0'] = n
    st.env['adjacency'] = alloc(st, 2, z3.Const('G0', A2R), (n, n), REAL)
    st.env['transform'] = None


_invl = z3.Function('invl', A2R, A2R)      # the same symbol as in contracts/dijkstra.py: entrywise 1/w on the support, 0 elsewhere


def _setup_inv(eng, st):
    """transform='inv': the connection lengths are L = 1/w on the support of the weights (ghost matrix L; 0 = no connection)."""
    _setup(eng, st)
    st.env['transform'] = 'inv'
    G = z3.Const('G0', A2R)
    x, y = z3.Ints('x!il y!il')
    r = z3.Select(z3.Select(_invl(G), x), y)
    m = z3.Select(z3.Select(G, x), y)
    # (the second conjunct is the arithmetic fact 1/m > 0 for m > 0, 1/m < 0 for m < 0, which the solver does not derive under quantifiers)
    st.pc.append(z3.ForAll([x, y], z3.And(r == z3.If(m != 0, 1 / m, z3.RealVal(0)), z3.Implies(m > 0, r > 0), z3.Implies(m < 0, r < 0)), patterns=[r, m]))
    st.ghost['L'] = alloc(st, 2, _invl(G), (st.ghost['n0'], st.ghost['n0']), REAL)


def _floyd_contract(L, key, setup, extra_requires, infdiv):
    """L: name of the matrix of connection lengths the specification speaks about (the argument itself, or the ghost L)."""
    RCH = lambda a, b: "Or(%s == %s, sdist(%s, %s, %s) >= 1)" % (a, b, L, a, b)
    inv = [
        ('FRAME', "And(n == n0, unchanged('adjacency'))"),
        ('RANGE-entries-between-zero-and-infinity', _N2 % "And(SPL[v, w] >= 0, SPL[v, w] <= INF)"),
        ('UPPER-finite-entries-are-lengths-of-walks', _N2 % ("implies(And(v != w, SPL[v, w] < INF), And(" + RCH('v', 'w') + ", SPL[v, w] >= wd(%s, v, w)))" % L)),
        ('LOWER-no-walk-through-the-pivots-so-far-is-shorter', "forall(lambda v, w, m, real_l: implies(And(inr(v, n0), inr(w, n0), swalk(%s, _it, v, w, m, real_l)), SPL[v, w] <= real_l))" % L),
    ]
    c = Contract(
        MOD, 'distance_wei_floyd', ['adjacency', 'transform'], setup=setup, key=key, inf_division=infdiv,
        requires=extra_requires + [('lengths-nonnegative', _N2 % ("%s[v, w] >= 0" % L)),
                                   ('infinity-exceeds-every-distance', "And(INF > 0, " + (_N2 % ("%s[v, w] < INF" % L)) + ", " + (_N2 % ("implies(" + RCH('v', 'w') + ", wd(%s, v, w) < INF)" % L)) + ")")],
        loops={'for k in range(*': {'name': 'pivots', 'inv': inv}},
        abstract=_AB,
        ghost_after={'n = adjacency.shape[1]': "assume(lemma_walks(%s, n0), lemma_wd(%s, n0), lemma_wd_triangle(%s, n0), lemma_floyd(%s, n0))" % (L, L, L, L)},
        ensures=[('distance-is-the-minimum-path-length', _N2 % ("implies(And(v != w, " + RCH('v', 'w') + "), result(0)[v, w] == wd(%s, v, w))" % L)),
                 ('infinite-exactly-when-unreachable', _N2 % ("implies(Not(" + RCH('v', 'w') + "), result(0)[v, w] == INF)")),
                 ('diagonal-zero', "forall(lambda v: implies(inr(v, n0), result(0)[v, v] == 0))"),
                 ('argument-untouched', "unchanged('adjacency')")])
    return c


_N2 = "forall(lambda v, w: implies(And(inr(v, n0), inr(w, n0)), %s))"
_AB = {k: {} for k in ['hops = np.array(*', 'Pmat = np.repeat(*', 'path = np.logical_and(*', 'i, j = np.where(path)']}
_AB.update({'hops[path] = *': {'allow_store': {'hops': True}}, 'Pmat[path] = *': {'allow_store': {'Pmat': True}}, 'hops[I], Pmat[I] = *': {'allow_store': {'hops': True, 'Pmat': True}}})
CONTRACTS['distance_wei_floyd'] = _floyd_contract('adjacency', 'distance_wei_floyd', _setup, [], False)
# transform='inv': SPL starts as 1/w (IEEE: 1/0 = inf under np.errstate(divide='ignore')); weights must be non-negative
CONTRACTS['distance_wei_floyd:inv'] = _floyd_contract('L', 'distance_wei_floyd:inv', _setup_inv, [('weights-nonnegative-and-finite', _N2 % "And(adjacency[v, w] >= 0, adjacency[v, w] < INF)")], 'ieee')


def _inv_ghosts(args, result, locs):
    import numpy as np
    A = np.asarray(args['adjacency'], dtype=float)
    with np.errstate(divide='ignore'):
        return {'L': np.where(A != 0, 1 / np.where(A != 0, A, 1), 0.)}


CONTRACTS['distance_wei_floyd:inv'].concrete_ghosts = _inv_ghosts


# ---- distance_wei_floyd (transform=None): the hop-count and next-node matrices -----------------------------------------------------------
# What retrieve_shortest_path needs of its producer (FloydConsistent, contracts/distance.py): following Pmat from i towards j moves along an
# existing connection, lowers hops by exactly one and SPL by exactly the length of that connection.  Proved WITHOUT reference to walks, by an
# invariant that is inductive on its own (pivot counter k = _it):
#   DIRECT  an existing connection bounds the entry:  adjacency[v,w] != 0  =>  SPL[v,w] <= adjacency[v,w]
#   TRI     for every already processed pivot q < k and connection v -> q:  SPL[v,w] <= adjacency[v,q] + SPL[q,w]
#   FIRST   the recorded next node of (v,w) is w itself or an already processed pivot
#   NEXT    for v != w with a finite entry, p = Pmat[v,w]: connection v -> p exists, SPL[v,w] == adjacency[v,p] + SPL'[p,w] and
#           hops[v,w] == 1 + hops'[p,w]   (SPL'[w,w] = hops'[w,w] = 0: the diagonal is overwritten with 0 at the end); hops == 0 iff the entry is infinite
# ASSUMPTION (exact real arithmetic, as everywhere): np.isclose(a, b, rtol=1e-12, atol=0) is modelled as a == b, i.e. the tolerance only
# absorbs rounding error.  (With a genuine relative difference below 1e-12 SPL would be lowered without Pmat being updated.)
_P = "Pmat[v, w]"
_SPLp = "(0 if %s == w else SPL[%s, w])" % (_P, _P)
_HOPp = "(0 if %s == w else hops[%s, w])" % (_P, _P)
_PINV = [
    ('FRAME', "And(n == n0, unchanged('adjacency'))"),
    ('RANGE-entries-between-zero-and-infinity', _N2 % "And(SPL[v, w] >= 0, SPL[v, w] <= INF)"),
    ('DIRECT-an-existing-connection-bounds-the-entry', _N2 % "implies(adjacency[v, w] != 0, SPL[v, w] <= adjacency[v, w])"),
    ('TRI-processed-pivots-give-no-shorter-detour', "forall(lambda v, w, q: implies(And(inr(v, n0), inr(w, n0), q >= 0, q < _it, q < n0, adjacency[v, q] != 0), SPL[v, w] <= adjacency[v, q] + SPL[q, w]), pattern=(adjacency[v, q], SPL[q, w]))"),
    ('FIRST-next-node-is-the-target-or-a-processed-pivot', _N2 % ("And(inr(%s, n0), Or(%s == w, %s < _it))" % (_P, _P, _P))),
    ('ZERO-hops-exactly-for-infinite-entries', _N2 % "implies(v != w, And(iff(hops[v, w] == 0, SPL[v, w] == INF), hops[v, w] >= 0))"),
    ('NEXT-connection-exists', _N2 % ("implies(And(v != w, SPL[v, w] < INF), adjacency[v, %s] != 0)" % _P)),
    ('NEXT-length-drops-by-that-connection', _N2 % ("implies(And(v != w, SPL[v, w] < INF), SPL[v, w] == adjacency[v, %s] + %s)" % (_P, _SPLp))),
    ('NEXT-hops-drop-by-one', _N2 % ("implies(And(v != w, SPL[v, w] < INF), And(hops[v, w] == 1 + %s, hops[v, w] >= 1))" % _HOPp)),
]
CONTRACTS['distance_wei_floyd:paths'] = Contract(
    MOD, 'distance_wei_floyd', ['adjacency', 'transform'], setup=_setup, key='distance_wei_floyd:paths', isclose_exact=True,
    requires=[('lengths-nonnegative-and-finite', _N2 % "And(adjacency[v, w] >= 0, adjacency[v, w] < INF)"), ('infinity-positive', "INF > 0")],
    loops={'for k in range(*': {'name': 'pivots', 'inv': _PINV}},
    ghost_before={'hops[path] = *': "Pold = snapshot(Pmat); Hold = snapshot(hops)",
                  'SPL = np.min(*': "check('H-improved-pairs-go-through-the-pivot-with-finite-legs', " + (_N2 % "implies(path[v, w], And(v != k, w != k, SPL[v, k] < INF, SPL[k, w] < INF, SPL[v, w] > SPL[v, k] + SPL[k, w]))") + "); "
                                    "check('H-bookkeeping-of-improved-pairs', " + (_N2 % "And(implies(path[v, w], And(hops[v, w] == Hold[v, k] + Hold[k, w], Pmat[v, w] == Pold[v, k])), implies(Not(path[v, w]), And(hops[v, w] == Hold[v, w], Pmat[v, w] == Pold[v, w])))") + "); "
                                    "check('H-the-next-node-of-an-improved-pair-is-improved-too', " + (_N2 % "implies(And(path[v, w], v != w, Pold[v, k] != k), And(path[Pold[v, k], w], Pold[v, k] != w, Pold[v, k] != v))") + ")"},
    ensures=[('next-node-is-one-connection-closer', _N2 % ("implies(And(v != w, result(0)[v, w] < INF), And(inr(result(2)[v, w], n0), adjacency[v, result(2)[v, w]] != 0, "
                                                          "result(0)[v, w] == adjacency[v, result(2)[v, w]] + result(0)[result(2)[v, w], w], "
                                                          "result(1)[v, w] == 1 + result(1)[result(2)[v, w], w], result(1)[v, w] >= 1))")),
             ('zero-hops-exactly-on-the-diagonal-and-for-infinite-entries', _N2 % "And(result(1)[v, w] >= 0, iff(result(1)[v, w] == 0, Or(v == w, result(0)[v, w] == INF)))"),
             ('diagonal-zero', "forall(lambda v: implies(inr(v, n0), And(result(0)[v, v] == 0, result(1)[v, v] == 0)))"),
             ('argument-untouched', "unchanged('adjacency')")])


# the same bookkeeping contract for transform='inv': the lengths are L = 1/w on the support of the weights (ghost L of _setup_inv)
def _to_L(clauses):
    return [(a, b.replace('adjacency[', 'L[')) for a, b in clauses]


_PB = CONTRACTS['distance_wei_floyd:paths']
CONTRACTS['distance_wei_floyd:paths:inv'] = Contract(
    MOD, 'distance_wei_floyd', ['adjacency', 'transform'], setup=_setup_inv, key='distance_wei_floyd:paths:inv', isclose_exact=True, inf_division='ieee',
    requires=[('weights-nonnegative-and-finite', _N2 % "And(adjacency[v, w] >= 0, adjacency[v, w] < INF)")] + _to_L(_PB.requires),
    loops={'for k in range(*': {'name': 'pivots', 'inv': _to_L(_PINV)}},
    ghost_before=dict(_PB.ghost_before),
    ensures=_to_L(_PB.ensures))
CONTRACTS['distance_wei_floyd:paths:inv'].concrete_ghosts = _inv_ghosts


# ---- rout_efficiency (C03: "rout_efficiency reports exactly the mean inverse of these distances"), global part, transform=None ---------------
# PREFIX contract (up to the local-efficiency loop): distance_wei_floyd is used through its proved contract; Erout = 1/SPL off the diagonal
# (1/INF = 0 for unreachable pairs, IEEE), 0 on the diagonal, GErout = total / (n*n - n).  np.isnan is False in the real-number model.
from engine.pyvc.run import callee_from_clauses as _cfc
from engine.pyvc.core import Opaque as _Opaque


def _setup_re(eng, st):
    n = z3.Int('n0c')
    st.pc.append(n >= 2)
    st.ghost['n0'] = n
    st.env['D'] = alloc(st, 2, z3.Const('G0', A2R), (n, n), REAL)
    st.env['transform'] = None


_FWC = CONTRACTS['distance_wei_floyd']
_RCHD = lambda a, b: "Or(%s == %s, sdist(D, %s, %s) >= 1)" % (a, b, a, b)
CONTRACTS['rout_efficiency#global'] = Contract(
    'bct.algorithms.efficiency', 'rout_efficiency', ['D', 'transform'], setup=_setup_re, key='rout_efficiency#global', inf_division='ieee',
    stop_at='Eloc = np.zeros((n,))',
    requires=[(a, b.replace('adjacency', 'D')) for a, b in _FWC.requires],
    ensures=[('pairwise-routing-efficiency-is-the-inverse-distance', _N2 % ("And(implies(And(v != w, " + _RCHD('v', 'w') + "), Erout[v, w] == 1 / wd(D, v, w)), implies(Not(" + _RCHD('v', 'w') + "), Erout[v, w] == 0), Erout[v, v] == 0)")),
             ('global-routing-efficiency-is-the-mean-over-ordered-pairs', "GErout == tsum(Erout, n0) / (n0 * n0 - n0)"),
             ('argument-untouched', "unchanged('D')")])
CONTRACTS['rout_efficiency#global'].callees = {'distance_wei_floyd': _cfc('distance_wei_floyd', ['adjacency', 'transform'], list(_FWC.requires), [e for e in _FWC.ensures if e[0] != 'argument-untouched'],
                                                                          [('mat', 'n0', 'n0'), ('mat', 'n0', 'n0'), ('imat', 'n0', 'n0')], ghosts={'n0': 'len(adjacency)'})}

for _k in ('distance_wei_floyd', 'distance_wei_floyd:inv', 'distance_wei_floyd:paths', 'distance_wei_floyd:paths:inv'):
    CONTRACTS[_k].inputs = [('adjacency', 'G0', 'mat', 'n0c')]       # lets a solver counter-model be replayed on the real function
