"""Sidecar contract for bct.utils.pick_four_unique_nodes_quickly (C06): this is the callee contract that the proofs of
randmio_*_signed assume (engine/pyvc/run.py: callee_pick_four); here it is proved of the real function (partial correctness: the
recursive call is taken by its own contract)."""
import z3
from engine.pyvc.core import Contract, Opaque, INT

MISC = 'bct.utils.miscellaneous_utilities'


def _setup(eng, st):
    n = z3.Int('n')
    st.env['n'] = n
    st.ghost['n0'] = n
    st.env['seed'] = Opaque('seed')


CONTRACTS = {'pick_four_unique_nodes_quickly': Contract(
    MISC, 'pick_four_unique_nodes_quickly', ['n', 'seed'], setup=_setup, requires=[('at-least-one-node', 'n >= 1')],
    ensures=[('four-values-in-range', "And(inr(result(0), n0), inr(result(1), n0), inr(result(2), n0), inr(result(3), n0))"),
             ('pairwise-distinct', "And(result(0) != result(1), result(0) != result(2), result(0) != result(3), result(1) != result(2), result(1) != result(3), result(2) != result(3))")])}
CONTRACTS['pick_four_unique_nodes_quickly'].inputs = [('n', 'n', 'int')]
